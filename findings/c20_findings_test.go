package rjson

// Demonstrations of the recorded C20 findings F2, F3, F4 against the real package.
// Run (nothing is written into /repo):
//   cd /repo && go test -overlay <ov.json> -vet=off -count=1 -run TestRjvFinding -v .
// with ov.json = {"Replace": {"/repo/zz_rjv_findings_test.go": "/verif/findings/c20_findings_test.go"}}

import (
	"bytes"
	"fmt"
	"runtime"
	"strings"
	"testing"
)

func rjvTotalAlloc(f func()) uint64 {
	var a, b runtime.MemStats
	runtime.GC()
	runtime.ReadMemStats(&a)
	f()
	runtime.ReadMemStats(&b)
	return b.TotalAlloc - a.TotalAlloc
}

func TestRjvFindingF2(t *testing.T) {
	var sb strings.Builder
	sb.WriteString("[{")
	for i := 0; i < 30000; i++ {
		if i > 0 {
			sb.WriteByte(',')
		}
		fmt.Fprintf(&sb, `"k%d":1`, i)
	}
	sb.WriteString("}")
	for i := 0; i < 3000; i++ {
		sb.WriteString(",{}")
	}
	sb.WriteString("]")
	doc := []byte(sb.String())
	n := rjvTotalAlloc(func() {
		if _, _, err := ReadValue(doc); err != nil {
			t.Fatal(err)
		}
	})
	t.Logf("F2: document of %d bytes, ReadValue allocated %d bytes (%.0fx the input)", len(doc), n, float64(n)/float64(len(doc)))
	if n < 1000*uint64(len(doc)) {
		t.Fatalf("finding F2 no longer reproduces")
	}
}

func TestRjvFindingF3(t *testing.T) {
	var sb strings.Builder
	sb.WriteString(`{"x":{`)
	for i := 0; i < 300000; i++ {
		if i > 0 {
			sb.WriteByte(',')
		}
		fmt.Fprintf(&sb, `"k%d":1`, i)
	}
	sb.WriteString("}}")
	big := []byte(sb.String())
	small := []byte(`{"a":{"b":1},"c":{"d":2}}`)
	var fresh ValueReader
	base := rjvTotalAlloc(func() { fresh.ReadValue(small) })
	var h ValueReader
	if _, _, err := h.ReadValue(big); err != nil {
		t.Fatal(err)
	}
	var worst uint64
	for i := 0; i < 10; i++ {
		n := rjvTotalAlloc(func() { h.ReadValue(small) })
		if n > worst {
			worst = n
		}
	}
	t.Logf("F3: fresh reader allocates %d bytes for a %d-byte document; a reader that once read a large object allocates %d bytes on every later call", base, len(small), worst)
	if worst < 1000*base {
		t.Fatalf("finding F3 no longer reproduces")
	}
}

func TestRjvFindingF4(t *testing.T) {
	depth := 3000
	doc := bytes.Repeat([]byte(`["\n",`), depth)
	doc = append(doc, '1')
	doc = append(doc, bytes.Repeat([]byte("]"), depth)...)
	n := rjvTotalAlloc(func() {
		if _, _, err := ReadValue(doc); err != nil {
			t.Fatal(err)
		}
	})
	t.Logf("F4: document of %d bytes, ReadValue allocated %d bytes (%.0fx the input)", len(doc), n, float64(n)/float64(len(doc)))
	if n < 500*uint64(len(doc)) {
		t.Fatalf("finding F4 no longer reproduces")
	}
}
