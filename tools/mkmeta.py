#!/usr/bin/env python3
"""usage: mkmeta.py <seed-id> <property> <props-run,comma> <change> <needs>  - writes seeded/<id>/meta.json from confirm.log and check logs"""
import json,re,os,sys
sid,prop,props,change,needs=sys.argv[1:6]
props=props.split(',')
d='/verif/seeded/'+sid
conf=open(d+'/confirm.log').read()
cb={k:(k in conf) for k in ["BUILD-OK","DEMO-WITH-CHANGE-FAIL","DEMO-WITHOUT-CHANGE-PASS","SUITE-WITH-CHANGE-PASS"]}
res={}; det=False
for p in props:
    f=d+'/check_%s.log'%p
    if not os.path.exists(f): continue
    log=open(f).read()
    v=[l for l in log.splitlines() if l.startswith('VIOLATION')]
    ex=(re.findall(r'exit=(\d+)',log) or ['?'])[-1]
    res[p]={"violations":len(v),"first":v[:3],"exit":ex}
    if p==prop and v and ex=='1': det=True
m={"seed_id":sid,"breaks_property":prop,"change":change,"needs_to_manifest":needs,
   "author":"independent sub-agent given only the property text and a scratch worktree",
   "confirmed_by_me":cb,"commands":["tools/confirm_seed.sh %s <worktree>"%sid,"tools/run_seed_scratch.sh %s %s"%(sid,' '.join(props))],
   "check_results":res,"detected":det}
json.dump(m,open(d+'/meta.json','w'),indent=1)
print(sid,cb,'detected=',det,{k:v['violations'] for k,v in res.items()})
