#!/bin/sh
# runs every claimed check (quick tier) on the current /repo tree and prints a one-line summary each
cd /verif || exit 2
tier=${1:-quick}
for p in $(python3 -c "import json;print(' '.join(c['property_id'] for c in json.load(open('MANIFEST.json'))['checks']))"); do
  start=$(date +%s)
  ./check $p --tier $tier > /tmp/rjv_runall_$p.log 2>&1; rc=$?
  end=$(date +%s)
  echo "$p exit=$rc $((end-start))s $(grep -c '^VIOLATION' /tmp/rjv_runall_$p.log) violations; $(head -1 /tmp/rjv_runall_$p.log)"
done
