#!/bin/sh
# usage: run_seed_scratch.sh <seed-id> <property>...
# Like run_seed.sh but never touches /repo: the seeded change is applied to a scratch copy of /repo
# and the checks run against that copy (RJV_REPO); outputs of such runs go to $TMPDIR/rjv-scratch-out.
id=$1; shift
sc=$(mktemp -d /tmp/rjv-seed-XXXXXX)
rsync -a --exclude .git /repo/ $sc/
(cd $sc && patch -p1 -s < /verif/seeded/$id/patch.diff) || { echo "$id: patch does not apply"; rm -rf $sc; exit 2; }
for p in "$@"; do
  (cd /verif && RJV_REPO=$sc ./bin/rjv check $p --tier quick > seeded/$id/check_$p.log 2>&1; echo "exit=$?" >> seeded/$id/check_$p.log)
  echo "$id $p: $(grep -c '^VIOLATION' /verif/seeded/$id/check_$p.log) violations, $(tail -1 /verif/seeded/$id/check_$p.log)"
  grep '^VIOLATION' /verif/seeded/$id/check_$p.log | head -3
done
rm -rf $sc
