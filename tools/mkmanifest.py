#!/usr/bin/env python3
"""Regenerates /verif/MANIFEST.json from the table below (kept in one place so that the claimed
checks, their level notes and the not_applicable list stay consistent)."""
import json, subprocess, os

HERE = os.path.dirname(os.path.dirname(os.path.abspath(__file__)))

CLAIMED = {
 "C01": dict(
   text="Proof that the real Valid (go/ssa of /repo) returns true exactly when the input is one RFC 8259 value surrounded by optional JSON whitespace with nesting <= 10000: skipValue is proved against the master JSON transducer at each of its ~186 cut points for all 256 byte values (sets of possible spec states per generated state are inferred as a least fixpoint and re-verified; push/pop are related through the stack relation), skipFloatDec/skipFloatExp against the same fold with loop invariants, countWhitespace and Valid on top. A changed transition in one generated state fails a named obligation (and is then replayed on the real code).",
   note="Specification = /verif/cmd/rjv/jsonspec.go (written from RFC 8259; agreement with encoding/json validated on 11.3M enumerated strings and at the depth limit - bounded validation of the spec, not a proof about encoding/json). Uses the absorption lemma (base/step discharged). Buffer independence: the stack parameter is unconstrained at entry.",
   tech="contract-based deductive verification: simulation of the generated machine against a specification transducer, cut-point VCs over go/ssa, inferred-then-verified invariants, z3/cvc5",
   ref="DESIGN.md section 6 (C01)"),
 "C02": dict(
   text="Same proof as C01 read as an offset statement: SkipValue/skipValue succeed exactly when the spec run accepts and then return exactly the spec's end offset (numbers by maximal munch with one byte of look-ahead, whatever follows), for every byte string; the wrapper passes (p, err) through for nil and non-nil buffers.",
   note="As C01. The (success, offset) pair of encoding/json's streaming decoder agrees with the spec on the bounded validation set only.",
   tech="contract-based deductive verification: simulation against a specification transducer, cut-point VCs over go/ssa, z3/cvc5",
   ref="DESIGN.md section 6 (C02)"),
 "C05": dict(
   text="Proof for every input that each integer reader succeeds exactly on an RFC 8259 integer literal (no fraction/exponent) whose value fits the type and then returns exactly that value and the offset after the last digit. The value is a 128-bit decimal fold saturating at 2^64 (so 'fits' is decided without overflow), ReadUint64's two loops carry `val == DV(start,p)` as invariants, the wrap test is proved equivalent to 10*val+d >= 2^64, ReadInt64's asymmetric bounds and sign handling and the 32-bit narrowings are postconditions; all arithmetic is 64/128-bit bit-vector arithmetic.",
   note="Specification = global lets uintok/uintval/intval in /repo/verif_contracts.go + DV axioms (base/step instantiated at read indices, stickiness lemma step discharged). ReadInt/ReadUint: 64-bit arm only. Decode forms via C12.",
   tech="contract-based deductive verification: loop invariants against a saturating decimal-value spec function, path VCs over go/ssa, z3/cvc5 raced",
   ref="DESIGN.md section 6 (C05)"),
 "C06": dict(
   text="Proof of the grammar/offset half of the property on the real code: ReadStringBytes and ReadString succeed exactly when the first token is a well-formed RFC 8259 string and return the offset just after the closing quote; appendRemainderOfString and unescapeStringContent (generated machines, all states x all bytes, including the 12-byte surrogate-pair jump through unescapeUnicodeChar/getu4, whose contracts state exactly when a \\uXXXX escape is present) are proved against the string states of the master transducer; unescaping the bytes between the quotes of a well-formed token succeeds and consumes all of them; destination contents are preserved (C16).",
   note="Proved for content: only the two helpers (getu4 returns the hex value; unescapeUnicodeChar appends exactly the UTF-8 encoding of the escape's rune, surrogate pairs combined, U+FFFD for unpaired). NOT proved: the decoded content of a whole token (which byte each two-character escape produces in the generated machines, where raw segments are copied) - the invariants over the specification's output registers were not discharged within the solver budget. For that part a BOUNDED stand-in runs on every check, labelled bounded and not counted among the discharged obligations: every string over a 15-symbol alphabet up to length 5, a corpus of structured tokens, their truncations and single-byte mutations through ReadStringBytes / ReadString / UnescapeStringContent on the real code against the RFC decoding (evidence.coverage.bounded_standins). utf8/utf16 helpers enter with exact assumed definitions. String machines are proved in the top-level context only.",
   tech="contract-based deductive verification: simulation of the generated string machines against the specification transducer, loop invariants for the hand-written scanners, z3/cvc5",
   ref="DESIGN.md section 6 (C06)"),
 "C07": dict(
   text="Proof on the real handleArrayValues/handleObjectValues (go/ssa, ~510 cut points, all 256 bytes each) against the traversal entry points of the master transducer, for every handler that returns a nil error only together with 0 or the exact end of the value: (i) every handler call happens at a member start of the traversed container (depth 1) with data[p:] starting at the member's first byte and, for objects, the field argument equal to the bytes between the key's quotes (key registers of the spec); (ii) every member start is a handler call, one per member, positions strictly increase; (iii) after 0 the embedded skip machine validates the member, after an exact end the machine re-reads the closing byte and continues in the after-value state (resync ghost state); (iv) if no handler call failed, the traversal succeeds exactly when the spec accepts (null or a complete container) and returns the spec's end offset.",
   note="The well-behaved handler contract is the property's hypothesis, stated on the spec run (incl. L-closer: the last byte of a string/array/object value is its closing quote/bracket - argued on the spec, not machine-checked). No depth limit is needed. Slowest check (~15-25 min without hints, a few minutes with the committed invariant hints, which are re-verified on every run).",
   tech="contract-based deductive verification: simulation with a handler interface contract and ghost resync state, event obligations per handler call site, cut-point VCs over go/ssa, z3/cvc5",
   ref="DESIGN.md section 6 (C07)"),
 "C09": dict(
   text="Proof for every document, call position and accompanying offset: on every path of the real handleArrayValues/handleObjectValues (go/ssa of /repo's tree) through a handler invoke, a non-nil handler error makes the function return that same SSA value with no further invoke; the wrappers pass it through. Handler results are unconstrained 64-bit / error symbols.",
   note="Trusted: go/ssa translation, rjv's SMT semantics, solver unsat answers, Floyd cut-point argument. Invariants at the ~500 machine cut points are inferred (Houdini) and re-verified from scratch on every run.",
   tech="contract-based deductive verification: ghost first-handler-error state, cut-point VCs over go/ssa, z3/cvc5",
   ref="DESIGN.md section 6 (C09)"),
 "C10": dict(
   text="Proof of memory safety (every index, slice, nil dereference, division), termination (measure at every cut point, non-strict edges acyclic) and `err == nil ==> 0 <= p <= len(data)` for every function under contract, with handlers returning arbitrary 64-bit offsets and errors and arbitrary scratch-stack contents; bit-vector arithmetic, so overflow is modelled (this check found the handler-offset overflow that was repaired in /repo).",
   note="Covers the functions listed in evidence.functions_under_contract (now including internal/fp's ParseJSONFloatPrefix, readFloat, set and the two kernels; the decimal shifting code enters with an assumed safety contract justified by C04's equivalence with strconv). Functions not under contract (ValueReader methods, ReadValue, StdLibCompatible*) are NOT proved; for them a BOUNDED stand-in (labelled bounded, not counted as discharged) runs them for panics over the replay corpus, its truncations, mutations and an enumeration. Assumes non-nil Decode targets, A-maxalloc, non-overlapping slice parameters.",
   tech="contract-based deductive verification: safety + termination VCs per cut point over go/ssa, Houdini-inferred invariants re-verified, z3/cvc5",
   ref="DESIGN.md section 6 (C10)"),
 "C13": dict(
   text="Proof for every input: NextToken/NextTokenType skip exactly the maximal run of space/tab/CR/LF, classify the next byte by the RFC token table (the 256-entry package tables are re-read from source on every run and every entry is compared inside the proofs), return index+1 and EOF only for empty/all-whitespace input; readNull/readBool (generated machines, all states x all bytes) succeed exactly on null / true / false after whitespace with the offset after the literal and the right value; every reader's success implies the class of the first non-whitespace byte is the class it reads, so at most one Read family accepts any input.",
   note="ReadFloat64's exclusivity rests on the assumed contract of internal/fp and is not included. Invariants of the literal machines are candidate atoms kept by Houdini and re-verified.",
   tech="contract-based deductive verification: quantified postconditions over wsrun/tokclass spec functions, cut-point VCs over go/ssa, z3/cvc5",
   ref="DESIGN.md section 6 (C13)"),
 "C14": dict(
   text="2-safety proof by self-composition on the real code: for skipValue, skipValueFast, handleArrayValues and handleObjectValues, two runs on the same input and the same (deterministic) handler but with arbitrary and different stack slices (length, capacity, contents) are related at every cut point by `all other cells equal and stackA[0..top) == stackB[0..top)`; every path of one run has a path of the other with the same control flow up to stack growth, the same handler calls with the same arguments, and the same (p, err) at every return. Handler calls havoc both stacks independently (re-entrant use of the very same Buffer) and happen only where top == 0 is an invariant. The five public wrappers return the same outcome for nil and non-nil Buffer.",
   note="From 'each call's outcome is independent of the stack slice' to 'any history of calls on one Buffer' is the immediate induction M-history (a Buffer has no other state), not machine-checked. Handler determinism and callee determinism are assumptions.",
   tech="contract-based deductive verification: relational (self-composition) cut-point VCs over go/ssa with inferred unary invariants, z3/cvc5",
   ref="DESIGN.md section 6 (C14)"),
 "C16": dict(
   text="Proof of the frame and ownership parts that a per-call contract can express: (a) every store and every in-place append of every function under contract has a discharged obligation that its target is not an input region, and an SSA scan of every function in rjson and internal/fp shows no store into package-level memory; (b) ReadStringBytes, UnescapeStringContent, unescapeStringContent, appendRemainderOfString, unescapeUnicodeChar and growBytesSliceCapacity return, on success, a slice whose first len(dst) elements are the destination's prior contents (quantified postcondition, invariants at every machine cut point); (c) every returned string comes from a []byte->string conversion; (d) the results of the Buffer-taking functions (SkipValue, SkipValueFast, Valid, HandleArrayValues, HandleObjectValues and their machines) do not depend on the prior length, capacity or contents of the Buffer's stack slice (the relational self-composition proofs of C14, run here as well).",
   note="Not proved (stated in evidence.proved_subset): that the appended suffix equals the empty-destination output, scratch-content independence of ReadString's *buf, and value trees; for the first of these a BOUNDED stand-in (labelled bounded, not counted as discharged) compares ReadStringBytes / UnescapeStringContent with destinations of six capacities against the empty-destination result over an enumerated input space. Input and destination are assumed not to overlap.",
   tech="contract-based deductive verification: frame obligations per store site + quantified prefix-preservation postconditions, cut-point VCs over go/ssa, z3/cvc5",
   ref="DESIGN.md section 6 (C16)"),
 "C18": dict(
   text="Decides the classical sufficient condition for race freedom of independent calls, not interleavings: every function of rjson and internal/fp (SSA scan of all of them) never stores into package-level memory nor hands package-level memory to a callee as a writable slice or pointer (tables and error sentinels are written by init only), and every store site of the functions under contract targets a local, freshly allocated memory, or memory reachable from the function's own non-input parameters. With disjoint write footprints and read-only shared input, race freedom and sequential equivalence follow by the frame rule, which is an unchecked meta-argument (M-frame). A hidden package-level scratch buffer fails a named obligation.",
   note="Schedules are not explored and nothing runs under the race detector (a different technique). sync.Pool is trusted to be concurrency-safe.",
   tech="contract-based deductive verification: frame conditions (no global writes, writes confined to own footprint) over go/ssa",
   ref="DESIGN.md section 6 (C18)"),
 "C19": dict(
   text="Proof, through a ghost counter of heap bytes requested (incremented at every make, append growth, []byte<->string conversion, interface boxing, fmt.Errorf and escaping new in the functions under contract), that successful calls of the token, null, bool, integer and float readers and of the numeric/boolean Decode functions (including Decode on a null input) request zero bytes, modularly through their callees; growBytesSliceCapacity and unescapeUnicodeChar request nothing when the capacity suffices; and the four stack machines and their wrappers never hand back a stack slice shorter than the one they received, on any exit, so a warmed Buffer stays warmed across calls (the property's hypothesis is preserved).",
   note="Partial with respect to the property's list: SkipValue/SkipValueFast/Valid/HandleArrayValues/HandleObjectValues with a warmed Buffer and ReadStringBytes/UnescapeStringContent with spare capacity are NOT proved; for them a BOUNDED stand-in (labelled bounded, not counted as discharged) measures testing.AllocsPerRun == 0 on the real code over a corpus of documents with a warmed Buffer / spare capacity (their allocation sites are the capacity-growth sites only, see C20; the step 'warmed => guard false' needs a depth bound that is not built). internal/fp is assumed not to allocate. The compiler's escape analysis and the allocator are not modelled.",
   tech="contract-based deductive verification: ghost resource counter in postconditions, path VCs over go/ssa, z3/cvc5",
   ref="DESIGN.md section 6 (C19)"),
 "C20": dict(
   text="Per-call resource contracts on the ghost allocation counter, the compositional form of 'memory linear in input': scalar readers and Decode functions request a constant; in the four stack machines every allocation event requests at most 16*p+1024 bytes at position p; the string and generic-decoding functions are bounded in the bytes they consume. Three sites violate their contract on the pinned tree - genuine defects, replayed on the real code (/verif/findings/c20_findings_test.go: 7.1 GB for a 328 KB document, 37 MB per call on a reused reader, 49 MB for a 21 KB document) - and are recorded as known findings F2, F3, F4; any other failing obligation is a violation.",
   note="Summation over calls (M-sum), amortisation of repeated stack growth (M-amort) and the growth policy of append (A-growth) are unchecked assumptions; handler allocations are not counted in the caller; []interface{} appends of the ValueReader are not modelled. The findings are not repaired because an honest fix is a redesign of the size-hint scheme (F2/F3) or changes the allocation strategy (F4).",
   tech="contract-based deductive verification: ghost resource counter with per-call and per-event bounds, cut-point VCs over go/ssa, z3/cvc5; known-findings file",
   ref="DESIGN.md sections 6 (C20) and 7"),
 "C04": dict(
   text="Proof, relative to the pinned Go 1.23.5 strconv, of every part of the float path that a contract can pin down: (a) every row of detailedPowersOfTen, float64pow10, powtab, leftcheats is a ground obligation (= mathematical definition computed with exact big-integer arithmetic, = reference copy); (b) the loop-free kernels eiselLemire64 and atof64exact are proved equivalent to strconv's for every argument (both SSA bodies run symbolically on the same arguments); (c) the decimal slow path - floatBits, Shift, leftShift, rightShift, prefixIsLessThan, trim, shouldRoundUp, RoundedInteger, and set under a precondition proved at its call site - is proved lock-step equivalent to strconv's, loop head by loop head (product program: same control flow, same results, same memory); (d) ReadFloat64 / ParseJSONFloatPrefix / readFloat are simulated against the master JSON transducer: success (or only a range error) exactly on an RFC 8259 number token, offset just after the literal; (e) readFloat's mantissa / exponent / sign / truncation flag equal the number registers of the specification run; (f) ParseJSONFloatPrefix's decision structure (exact path, Eisel-Lemire with the mantissa+1 confirmation, slow path, overflow error) is a postcondition over the callees' result functions.",
   note="Relative proof: correct rounding of strconv's kernels is assumed (A-strconv); that the number registers (value of the first 19 digits, digit count, point position, saturating exponent) denote the literal is positional notation by definition; that the decision structure rounds correctly given correct kernels is the published argument, not machine-checked. Reference copy: /verif/ref/strconv (verbatim files + SHA256SUMS). The unchecked rounding argument is backed by a BOUNDED stand-in on every run (labelled bounded, not counted as discharged): ReadFloat64 against strconv.ParseFloat bit for bit on a corpus of boundary literals, malformed near-misses and 3M pseudo-random literals (evidence.coverage.bounded_standins).",
   tech="contract-based deductive verification: ground table obligations, relational (product-program) equivalence of go/ssa bodies with a pinned reference, simulation against a specification transducer with number registers, postconditions over pure callee result functions; z3/cvc5",
   ref="DESIGN.md section 6 (C04)"),
 "C08": dict(
   text="Proof of the per-call half of the property, which is what a contract can state: every offset a reader reports on success is the end offset of one and the same specification run. For ReadUint64/32, ReadInt64/32, ReadInt, ReadUint, ReadFloat64, ReadBool, ReadNull, ReadString, ReadStringBytes, SkipValue and (on accepted input) SkipValueFast the real code is proved to satisfy `err == nil ==> accepts(data) && p == endof(data)` over the master JSON transducer run (the loops of the real readers carry the induction over digit runs; the generated machines are simulated state by state); HandleArrayValues / HandleObjectValues are proved to call the handler exactly at member starts with data[p:] starting at the member, to resume at the exact end the handler reports or to validate the member themselves after 0, and to return the container's end offset.",
   note="NOT machine-checked: the induction over decoders written against the API (M-compose: a quantification over programs), and the 'reconstructs the same value tree' half (no tree-valued contracts, see C03). Re-proves the offset clauses of C02, C04, C05, C06, C07, C11, C13 in one check (slow: dominated by the handler machines).",
   tech="contract-based deductive verification: simulation of every reader against one specification transducer run, cut-point VCs over go/ssa, handler interface contract; z3/cvc5",
   ref="DESIGN.md section 6 (C08)"),
 "C11": dict(
   text="Proof for every input: if the specification accepts (which by the C02 contract, re-proved inside this check, is exactly when SkipValue succeeds, with p the spec's end offset) then skipValueFast/SkipValueFast return a nil error and the same end offset. The real skipValueFast (65 cut points x 256 bytes) is simulated against the master transducer under the hypothesis accepts(data): its stack height is related to the number of open frames of the same kind as the outermost container (two counters added to the spec run), its return states to the kind of the outermost container, strings are stepped over in lock step with the spec's string states, and the nesting limit of 10000 cannot trigger because the same-kind depth is bounded by the total depth.",
   note="The counters' meaning (number of array/object frames on the spec stack, at least 1 for the kind of the bottom frame) is a lemma about the specification proved by induction (seven base/step obligations with explicit unfoldings). Nothing is claimed on malformed input (C10 covers safety there).",
   tech="contract-based deductive verification: simulation of the generated machine against a specification transducer under an acceptance hypothesis, cut-point VCs over go/ssa, inductive spec lemmas, z3/cvc5",
   ref="DESIGN.md section 6 (C11)"),
 "C12": dict(
   text="Proof for all ten Decode functions and nullOrBust, for every input and every prior target value: reader succeeds => target = reader's value, same offset, nil error; reader fails and ReadNull succeeds => target unchanged, offset of null, nil error; otherwise target unchanged and non-nil error. Stated over the readers' result functions, so it is exactly 'behaves as the corresponding reader'.",
   note="Relative to: each Read function is a deterministic function of the input bytes (result functions rok/rval/rp). DecodeString's stored value is not compared (strings are not scalars in the VC language).",
   tech="contract-based deductive verification: postconditions over reader result functions, path VCs over go/ssa, z3/cvc5",
   ref="DESIGN.md section 6 (C12)"),
}

NOT_BUILT = "in reach per DESIGN.md section 6 but its check is not built yet - not claimed"
NA = {
 "C03": "per-call contracts on the generic reader (ValueReader) are not built; the statement is equality of interface-typed value trees with encoding/json's, which needs inductive datatypes for map[string]interface{} / []interface{} values that the quantifier-free bit-vector/array VC generator does not have (DESIGN.md section 6, C03). Only allocation bounds of ReadObject/ReadArray are under contract (C20)",
 "C15": "needs a full functional contract of generic decoding for arbitrary prior reader state (incl. what sync.Pool.Get may return) and ownership of maps/slices reachable through interface values; not expressible in a quantifier-free bit-vector/array VC generator without inductive datatypes or separation logic (DESIGN.md section 6, C15)",
 "C17": "the functional content is utf8.DecodeRune / string([]rune) / string(rune) runtime intrinsics whose semantics would have to be assumed in exactly the form of the property, and the statement is sequence-valued and, for the slice/map helpers, an induction over interface-typed trees; no contract within reach decides it (DESIGN.md section 6, C17)",
}

def git(*a):
    return subprocess.run(["git", "-C", "/repo"] + list(a), capture_output=True, text=True).stdout.strip()

def main():
    hooks = []
    for line in git("log", "--format=%H %s").splitlines():
        h, s = line.split(" ", 1)
        if s.startswith("verif:"):
            hooks.append(h)
    checks = []
    for pid in sorted(CLAIMED):
        c = CLAIMED[pid]
        checks.append({
            "property_id": pid,
            "quick_cmd": "./check %s --tier quick" % pid,
            "thorough_cmd": "./check %s --tier thorough" % pid,
            "evidence_file": "/verif/evidence/%s.json" % pid,
            "replay_cmd_template": "./check --replay {path}",
            "engine": "rjv",
            "level_claimed": {"category": c.get("cat", "proof"), "text": c["text"], "design_ref": c["ref"]},
            "level_note": c["note"],
            "technique": c["tech"],
        })
    na = [{"property_id": k, "reason": v} for k, v in sorted(NA.items()) if k not in CLAIMED]
    m = {
        "version": 1,
        "setup_cmd": "cd /verif && GOFLAGS=-mod=vendor GOPROXY=off GOSUMDB=off GOTOOLCHAIN=local CGO_ENABLED=0 go build -o bin/rjv ./cmd/rjv",
        "hooks": {
            "guard": "verif",
            "enable": "build tag `verif`: /repo/verif_contracts.go and /repo/internal/fp/verif_contracts.go are comment-only files compiled only with -tags verif; rjv reads their //@ lines with go/parser and loads /repo with -tags=verif",
            "baseline_off_cmd": "cd /repo && go test -mod=mod -vet=off -count=1 -timeout 25m ./...",
            "source_commits": hooks,
            "add_only": True,
        },
        "engines": [{
            "name": "rjv", "path": "/verif/cmd/rjv", "serves_properties": sorted(CLAIMED),
            "kind_free_text": "contract-based deductive verifier for Go written for this task: go/ssa (NaiveForm) symbolic execution between cut points of the real functions, contracts as //@ comments in a guarded file in /repo, invariants for the Ragel machines inferred (Houdini) and re-verified from scratch, 64-bit bit-vector VCs discharged by z3-new 5.1.0 / z3 4.8.12 / cvc5 1.0.3",
        }],
        "checks": checks,
        "not_applicable": na,
        "notes": "Every check reloads /repo's working tree, regenerates all verification conditions and discharges them afresh; evidence/<id>.json is rewritten by each run. Known findings: /verif/known_findings.txt. Design and per-property assumptions: /verif/DESIGN.md.",
    }
    json.dump(m, open(os.path.join(HERE, "MANIFEST.json"), "w"), indent=1)
    print("MANIFEST.json:", len(checks), "checks,", len(na), "not_applicable, hooks", hooks)

if __name__ == "__main__":
    main()
