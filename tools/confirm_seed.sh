#!/bin/sh
# usage: confirm_seed.sh <seed-id> <worktree> [pkgdir]
# Confirms a seeded change independently: builds, existing suite passes with it, demo fails with it and
# passes without it. Copies patch/demo/notes to /verif/seeded/<seed-id>/ and writes confirm.log there.
id=$1; wt=$2; pkg=${3:-.}
export GOFLAGS=-mod=mod GOPROXY=off GOSUMDB=off GOTOOLCHAIN=local
out=/verif/seeded/$id; mkdir -p $out
cp $wt/_seed/patch.diff $wt/_seed/demo_test.go $out/ 2>/dev/null
cp $wt/_seed/notes.md $out/agent_notes.md 2>/dev/null
log=$out/confirm.log; : > $log
cd $wt || exit 2
git diff > /tmp/wt/$id.current.diff
if ! cmp -s /tmp/wt/$id.current.diff $out/patch.diff; then echo "NOTE: worktree diff differs from patch.diff; using worktree diff" >> $log; cp /tmp/wt/$id.current.diff $out/patch.diff; fi
echo "== build with change" >> $log; (go build ./... >> $log 2>&1 && echo BUILD-OK >> $log) || echo BUILD-FAIL >> $log
cp $out/demo_test.go $wt/$pkg/zz_seed_demo_test.go
echo "== demo with change (expect FAIL)" >> $log; (cd $wt/$pkg && go test -vet=off -count=1 -timeout 120s -run 'TestSeedDemo$' . >> $log 2>&1 && echo DEMO-WITH-CHANGE-PASS >> $log) || echo DEMO-WITH-CHANGE-FAIL >> $log
git apply -R $out/patch.diff
echo "== demo without change (expect PASS)" >> $log; (cd $wt/$pkg && go test -vet=off -count=1 -timeout 120s -run 'TestSeedDemo$' . >> $log 2>&1 && echo DEMO-WITHOUT-CHANGE-PASS >> $log) || echo DEMO-WITHOUT-CHANGE-FAIL >> $log
rm -f $wt/$pkg/zz_seed_demo_test.go
git apply $out/patch.diff
echo "== full suite with change (expect PASS)" >> $log; (go test -mod=mod -vet=off -count=1 -timeout 25m ./... >> $log 2>&1 && echo SUITE-WITH-CHANGE-PASS >> $log) || echo SUITE-WITH-CHANGE-FAIL >> $log
grep -E "BUILD-|DEMO-|SUITE-" $log
