#!/bin/sh
# usage: run_seed.sh <seed-id> <property>...   applies seeded/<id>/patch.diff to /repo, runs the checks, reverts
id=$1; shift
cd /repo && git diff --quiet -- . ":(exclude)verif_contracts.go" ":(exclude)internal/fp/verif_contracts.go" || { echo "/repo is dirty"; exit 2; }
git -C /repo apply /verif/seeded/$id/patch.diff || exit 2
for p in "$@"; do
  (cd /verif && ./check $p --tier quick > seeded/$id/check_$p.log 2>&1; echo "exit=$?" >> seeded/$id/check_$p.log)
  echo "$id $p: $(grep -c '^VIOLATION' /verif/seeded/$id/check_$p.log) violations, $(tail -1 /verif/seeded/$id/check_$p.log)"
  grep '^VIOLATION' /verif/seeded/$id/check_$p.log | head -3
done
git -C /repo apply -R /verif/seeded/$id/patch.diff
