#!/bin/sh
# Must-fail corpus: every seeded change under /verif/seeded/<id>/ is applied to a scratch copy of
# /repo (never to /repo itself) and the check of the property it breaks must report a VIOLATION.
# usage: tools/mustfail.sh [seed-id ...]     (default: all seeds; slow ones: C07-a, C08-a)
cd /verif || exit 2
ids="$@"
[ -z "$ids" ] && ids=$(ls seeded)
rc=0
for id in $ids; do
  prop=$(python3 -c "import json;print(json.load(open('seeded/$id/meta.json'))['breaks_property'])" 2>/dev/null) || continue
  sc=$(mktemp -d /tmp/rjv-mustfail-XXXXXX)
  rsync -a --exclude .git /repo/ $sc/
  (cd $sc && patch -p1 -s < /verif/seeded/$id/patch.diff) || { echo "$id: patch does not apply"; rc=1; rm -rf $sc; continue; }
  out=$(RJV_REPO=$sc ./bin/rjv check $prop --tier quick 2>&1); code=$?
  n=$(echo "$out" | grep -c '^VIOLATION')
  expect=$(python3 -c "import json;print(json.load(open('seeded/$id/meta.json'))['detected'])")
  if [ $code -eq 1 ] && [ $n -gt 0 ]; then echo "$id ($prop): detected, $n violation line(s)";
  elif [ "$expect" = "False" ]; then echo "$id ($prop): not detected - recorded miss (see DESIGN.md section 0.4)";
  else echo "$id ($prop): NOT DETECTED (exit $code)"; rc=1; fi
  rm -rf $sc /tmp/rjv-scratch-out
done
exit $rc
