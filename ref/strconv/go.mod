module refstrconv

go 1.23
