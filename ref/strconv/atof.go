// Copyright 2009 The Go Authors. All rights reserved.
// Use of this source code is governed by a BSD-style
// license that can be found in the LICENSE file.

package strconv

// decimal to binary floating point conversion.
// Algorithm:
//   1) Store input in multiprecision decimal.
//   2) Multiply/divide decimal by powers of two until in range [0.5, 1)
//   3) Multiply by 2^precision and round to get mantissa.

import "math"

var optimize = true // set to false to force slow-path conversions for testing

// commonPrefixLenIgnoreCase returns the length of the common
// prefix of s and prefix, with the character case of s ignored.
// The prefix argument must be all lower-case.
func commonPrefixLenIgnoreCase(s, prefix string) int {
	n := len(prefix)
	if n > len(s) {
		n = len(s)
	}
	for i := 0; i < n; i++ {
		c := s[i]
		if 'A' <= c && c <= 'Z' {
			c += 'a' - 'A'
		}
		if c != prefix[i] {
			return i
		}
	}
	return n
}

// special returns the floating-point value for the special,
// possibly signed floating-point representations inf, infinity,
// and NaN. The result is ok if a prefix of s contains one
// of these representations and n is the length of that prefix.
// The character case is ignored.
func special(s string) (f float64, n int, ok bool) {
	if len(s) == 0 {
		return 0, 0, false
	}
	sign := 1
	nsign := 0
	switch s[0] {
	case '+', '-':
		if s[0] == '-' {
			sign = -1
		}
		nsign = 1
		s = s[1:]
		fallthrough
	case 'i', 'I':
		n := commonPrefixLenIgnoreCase(s, "infinity")
		// Anything longer than "inf" is ok, but if we
		// don't have "infinity", only consume "inf".
		if 3 < n && n < 8 {
			n = 3
		}
		if n == 3 || n == 8 {
			return math.Inf(sign), nsign + n, true
		}
	case 'n', 'N':
		if commonPrefixLenIgnoreCase(s, "nan") == 3 {
			return math.NaN(), 3, true
		}
	}
	return 0, 0, false
}

func (b *decimal) set(s string) (ok bool) {
	i := 0
	b.neg = false
	b.trunc = false

	// optional sign
	if i >= len(s) {
		return
	}
	switch {
	case s[i] == '+':
		i++
	case s[i] == '-':
		b.neg = true
		i++
	}

	// digits
	sawdot := false
	sawdigits := false
	for ; i < len(s); i++ {
		switch {
		case s[i] == '_':
			// readFloat already checked underscores
			continue
		case s[i] == '.':
			if sawdot {
				return
			}
			sawdot = true
			b.dp = b.nd
			continue

		case '0' <= s[i] && s[i] <= '9':
			sawdigits = true
			if s[i] == '0' && b.nd == 0 { // ignore leading zeros
				b.dp--
				continue
			}
			if b.nd < len(b.d) {
				b.d[b.nd] = s[i]
				b.nd++
			} else if s[i] != '0' {
				b.trunc = true
			}
			continue
		}
		break
	}
	if !sawdigits {
		return
	}
	if !sawdot {
		b.dp = b.nd
	}

	// optional exponent moves decimal point.
	// if we read a very large, very long number,
	// just be sure to move the decimal point by
	// a lot (say, 100000).  it doesn't matter if it's
	// not the exact number.
	if i < len(s) && lower(s[i]) == 'e' {
		i++
		if i >= len(s) {
			return
		}
		esign := 1
		if s[i] == '+' {
			i++
		} else if s[i] == '-' {
			i++
			esign = -1
		}
		if i >= len(s) || s[i] < '0' || s[i] > '9' {
			return
		}
		e := 0
		for ; i < len(s) && ('0' <= s[i] && s[i] <= '9' || s[i] == '_'); i++ {
			if s[i] == '_' {
				// readFloat already checked underscores
				continue
			}
			if e < 10000 {
				e = e*10 + int(s[i]) - '0'
			}
		}
		b.dp += e * esign
	}

	if i != len(s) {
		return
	}

	ok = true
	return
}

// readFloat reads a decimal or hexadecimal mantissa and exponent from a float
// string representation in s; the number may be followed by other characters.
// readFloat reports the number of bytes consumed (i), and whether the number
// is valid (ok).
func readFloat(s string) (mantissa uint64, exp int, neg, trunc, hex bool, i int, ok bool) {
	underscores := false

	// optional sign
	if i >= len(s) {
		return
	}
	switch {
	case s[i] == '+':
		i++
	case s[i] == '-':
		neg = true
		i++
	}

	// digits
	base := uint64(10)
	maxMantDigits := 19 // 10^19 fits in uint64
	expChar := byte('e')
	if i+2 < len(s) && s[i] == '0' && lower(s[i+1]) == 'x' {
		base = 16
		maxMantDigits = 16 // 16^16 fits in uint64
		i += 2
		expChar = 'p'
		hex = true
	}
	sawdot := false
	sawdigits := false
	nd := 0
	ndMant := 0
	dp := 0
loop:
	for ; i < len(s); i++ {
		switch c := s[i]; true {
		case c == '_':
			underscores = true
			continue

		case c == '.':
			if sawdot {
				break loop
			}
			sawdot = true
			dp = nd
			continue

		case '0' <= c && c <= '9':
			sawdigits = true
			if c == '0' && nd == 0 { // ignore leading zeros
				dp--
				continue
			}
			nd++
			if ndMant < maxMantDigits {
				mantissa *= base
				mantissa += uint64(c - '0')
				ndMant++
			} else if c != '0' {
				trunc = true
			}
			continue

		case base == 16 && 'a' <= lower(c) && lower(c) <= 'f':
			sawdigits = true
			nd++
			if ndMant < maxMantDigits {
				mantissa *= 16
				mantissa += uint64(lower(c) - 'a' + 10)
				ndMant++
			} else {
				trunc = true
			}
			continue
		}
		break
	}
	if !sawdigits {
		return
	}
	if !sawdot {
		dp = nd
	}

	if base == 16 {
		dp *= 4
		ndMant *= 4
	}

	// optional exponent moves decimal point.
	// if we read a very large, very long number,
	// just be sure to move the decimal point by
	// a lot (say, 100000).  it doesn't matter if it's
	// not the exact number.
	if i < len(s) && lower(s[i]) == expChar {
		i++
		if i >= len(s) {
			return
		}
		esign := 1
		if s[i] == '+' {
			i++
		} else if s[i] == '-' {
			i++
			esign = -1
		}
		if i >= len(s) || s[i] < '0' || s[i] > '9' {
			return
		}
		e := 0
		for ; i < len(s) && ('0' <= s[i] && s[i] <= '9' || s[i] == '_'); i++ {
			if s[i] == '_' {
				underscores = true
				continue
			}
			if e < 10000 {
				e = e*10 + int(s[i]) - '0'
			}
		}
		dp += e * esign
	} else if base == 16 {
		// Must have exponent.
		return
	}

	if mantissa != 0 {
		exp = dp - ndMant
	}

	if underscores && !underscoreOK(s[:i]) {
		return
	}

	ok = true
	return
}

// decimal power of ten to binary power of two.
var powtab = []int{1, 3, 6, 9, 13, 16, 19, 23, 26}

func (d *decimal) floatBits(flt *floatInfo) (b uint64, overflow bool) {
	var exp int
	var mant uint64

	// Zero is always a special case.
	if d.nd == 0 {
		mant = 0
		exp = flt.bias
		goto out
	}

	// Obvious overflow/underflow.
	// These bounds are for 64-bit floats.
	// Will have to change if we want to support 80-bit floats in the future.
	if d.dp > 310 {
		goto overflow
	}
	if d.dp < -330 {
		// zero
		mant = 0
		exp = flt.bias
		goto out
	}

	// Scale by powers of two until in range [0.5, 1.0)
	exp = 0
	for d.dp > 0 {
		var n int
		if d.dp >= len(powtab) {
			n = 27
		} else {
			n = powtab[d.dp]
		}
		d.Shift(-n)
		exp += n
	}
	for d.dp < 0 || d.dp == 0 && d.d[0] < '5' {
		var n int
		if -d.dp >= len(powtab) {
			n = 27
		} else {
			n = powtab[-d.dp]
		}
		d.Shift(n)
		exp -= n
	}

	// Our range is [0.5,1) but floating point range is [1,2).
	exp--

	// Minimum representable exponent is flt.bias+1.
	// If the exponent is smaller, move it up and
	// adjust d accordingly.
	if exp < flt.bias+1 {
		n := flt.bias + 1 - exp
		d.Shift(-n)
		exp += n
	}

	if exp-flt.bias >= 1<<flt.expbits-1 {
		goto overflow
	}

	// Extract 1+flt.mantbits bits.
	d.Shift(int(1 + flt.mantbits))
	mant = d.RoundedInteger()

	// Rounding might have added a bit; shift down.
	if mant == 2<<flt.mantbits {
		mant >>= 1
		exp++
		if exp-flt.bias >= 1<<flt.expbits-1 {
			goto overflow
		}
	}

	// Denormalized?
	if mant&(1<<flt.mantbits) == 0 {
		exp = flt.bias
	}
	goto out

overflow:
	// ±Inf
	mant = 0
	exp = 1<<flt.expbits - 1 + flt.bias
	overflow = true

out:
	// Assemble bits.
	bits := mant & (uint64(1)<<flt.mantbits - 1)
	bits |= uint64((exp-flt.bias)&(1<<flt.expbits-1)) << flt.mantbits
	if d.neg {
		bits |= 1 << flt.mantbits << flt.expbits
	}
	return bits, overflow
}

// Exact powers of 10.
var float64pow10 = []float64{
	1e0, 1e1, 1e2, 1e3, 1e4, 1e5, 1e6, 1e7, 1e8, 1e9,
	1e10, 1e11, 1e12, 1e13, 1e14, 1e15, 1e16, 1e17, 1e18, 1e19,
	1e20, 1e21, 1e22,
}
var float32pow10 = []float32{1e0, 1e1, 1e2, 1e3, 1e4, 1e5, 1e6, 1e7, 1e8, 1e9, 1e10}

// If possible to convert decimal representation to 64-bit float f exactly,
// entirely in floating-point math, do so, avoiding the expense of decimalToFloatBits.
// Three common cases:
//
//	value is exact integer
//	value is exact integer * exact power of ten
//	value is exact integer / exact power of ten
//
// These all produce potentially inexact but correctly rounded answers.
func atof64exact(mantissa uint64, exp int, neg bool) (f float64, ok bool) {
	if mantissa>>float64info.mantbits != 0 {
		return
	}
	f = float64(mantissa)
	if neg {
		f = -f
	}
	switch {
	case exp == 0:
		// an integer.
		return f, true
	// Exact integers are <= 10^15.
	// Exact powers of ten are <= 10^22.
	case exp > 0 && exp <= 15+22: // int * 10^k
		// If exponent is big but number of digits is not,
		// can move a few zeros into the integer part.
		if exp > 22 {
			f *= float64pow10[exp-22]
			exp = 22
		}
		if f > 1e15 || f < -1e15 {
			// the exponent was really too large.
			return
		}
		return f * float64pow10[exp], true
	case exp < 0 && exp >= -22: // int / 10^k
		return f / float64pow10[-exp], true
	}
	return
}

// If possible to compute mantissa*10^exp to 32-bit float f exactly,
// entirely in floating-point math, do so, avoiding the machinery above.
func atof32exact(mantissa uint64, exp int, neg bool) (f float32, ok bool) {
	if mantissa>>float32info.mantbits != 0 {
		return
	}
	f = float32(mantissa)
	if neg {
		f = -f
	}
	switch {
	case exp == 0:
		return f, true
	// Exact integers are <= 10^7.
	// Exact powers of ten are <= 10^10.
	case exp > 0 && exp <= 7+10: // int * 10^k
		// If exponent is big but number of digits is not,
		// can move a few zeros into the integer part.
		if exp > 10 {
			f *= float32pow10[exp-10]
			exp = 10
		}
		if f > 1e7 || f < -1e7 {
			// the exponent was really too large.
			return
		}
		return f * float32pow10[exp], true
	case exp < 0 && exp >= -10: // int / 10^k
		return f / float32pow10[-exp], true
	}
	return
}

// atofHex converts the hex floating-point string s
// to a rounded float32 or float64 value (depending on flt==&float32info or flt==&float64info)
// and returns it as a float64.
// The string s has already been parsed into a mantissa, exponent, and sign (neg==true for negative).
// If trunc is true, trailing non-zero bits have been omitted from the mantissa.
func atofHex(s string, flt *floatInfo, mantissa uint64, exp int, neg, trunc bool) (float64, error) {
	maxExp := 1<<flt.expbits + flt.bias - 2
	minExp := flt.bias + 1
	exp += int(flt.mantbits) // mantissa now implicitly divided by 2^mantbits.

	// Shift mantissa and exponent to bring representation into float range.
	// Eventually we want a mantissa with a leading 1-bit followed by mantbits other bits.
	// For rounding, we need two more, where the bottom bit represents
	// whether that bit or any later bit was non-zero.
	// (If the mantissa has already lost non-zero bits, trunc is true,
	// and we OR in a 1 below after shifting left appropriately.)
	for mantissa != 0 && mantissa>>(flt.mantbits+2) == 0 {
		mantissa <<= 1
		exp--
	}
	if trunc {
		mantissa |= 1
	}
	for mantissa>>(1+flt.mantbits+2) != 0 {
		mantissa = mantissa>>1 | mantissa&1
		exp++
	}

	// If exponent is too negative,
	// denormalize in hopes of making it representable.
	// (The -2 is for the rounding bits.)
	for mantissa > 1 && exp < minExp-2 {
		mantissa = mantissa>>1 | mantissa&1
		exp++
	}

	// Round using two bottom bits.
	round := mantissa & 3
	mantissa >>= 2
	round |= mantissa & 1 // round to even (round up if mantissa is odd)
	exp += 2
	if round == 3 {
		mantissa++
		if mantissa == 1<<(1+flt.mantbits) {
			mantissa >>= 1
			exp++
		}
	}

	if mantissa>>flt.mantbits == 0 { // Denormal or zero.
		exp = flt.bias
	}
	var err error
	if exp > maxExp { // infinity and range error
		mantissa = 1 << flt.mantbits
		exp = maxExp + 1
		err = rangeError(fnParseFloat, s)
	}

	bits := mantissa & (1<<flt.mantbits - 1)
	bits |= uint64((exp-flt.bias)&(1<<flt.expbits-1)) << flt.mantbits
	if neg {
		bits |= 1 << flt.mantbits << flt.expbits
	}
	if flt == &float32info {
		return float64(math.Float32frombits(uint32(bits))), err
	}
	return math.Float64frombits(bits), err
}

const fnParseFloat = "ParseFloat"

func atof32(s string) (f float32, n int, err error) {
	if val, n, ok := special(s); ok {
		return float32(val), n, nil
	}

	mantissa, exp, neg, trunc, hex, n, ok := readFloat(s)
	if !ok {
		return 0, n, syntaxError(fnParseFloat, s)
	}

	if hex {
		f, err := atofHex(s[:n], &float32info, mantissa, exp, neg, trunc)
		return float32(f), n, err
	}

	if optimize {
		// Try pure floating-point arithmetic conversion, and if that fails,
		// the Eisel-Lemire algorithm.
		if !trunc {
			if f, ok := atof32exact(mantissa, exp, neg); ok {
				return f, n, nil
			}
		}
		f, ok := eiselLemire32(mantissa, exp, neg)
		if ok {
			if !trunc {
				return f, n, nil
			}
			// Even if the mantissa was truncated, we may
			// have found the correct result. Confirm by
			// converting the upper mantissa bound.
			fUp, ok := eiselLemire32(mantissa+1, exp, neg)
			if ok && f == fUp {
				return f, n, nil
			}
		}
	}

	// Slow fallback.
	var d decimal
	if !d.set(s[:n]) {
		return 0, n, syntaxError(fnParseFloat, s)
	}
	b, ovf := d.floatBits(&float32info)
	f = math.Float32frombits(uint32(b))
	if ovf {
		err = rangeError(fnParseFloat, s)
	}
	return f, n, err
}

func atof64(s string) (f float64, n int, err error) {
	if val, n, ok := special(s); ok {
		return val, n, nil
	}

	mantissa, exp, neg, trunc, hex, n, ok := readFloat(s)
	if !ok {
		return 0, n, syntaxError(fnParseFloat, s)
	}

	if hex {
		f, err := atofHex(s[:n], &float64info, mantissa, exp, neg, trunc)
		return f, n, err
	}

	if optimize {
		// Try pure floating-point arithmetic conversion, and if that fails,
		// the Eisel-Lemire algorithm.
		if !trunc {
			if f, ok := atof64exact(mantissa, exp, neg); ok {
				return f, n, nil
			}
		}
		f, ok := eiselLemire64(mantissa, exp, neg)
		if ok {
			if !trunc {
				return f, n, nil
			}
			// Even if the mantissa was truncated, we may
			// have found the correct result. Confirm by
			// converting the upper mantissa bound.
			fUp, ok := eiselLemire64(mantissa+1, exp, neg)
			if ok && f == fUp {
				return f, n, nil
			}
		}
	}

	// Slow fallback.
	var d decimal
	if !d.set(s[:n]) {
		return 0, n, syntaxError(fnParseFloat, s)
	}
	b, ovf := d.floatBits(&float64info)
	f = math.Float64frombits(b)
	if ovf {
		err = rangeError(fnParseFloat, s)
	}
	return f, n, err
}

// ParseFloat converts the string s to a floating-point number
// with the precision specified by bitSize: 32 for float32, or 64 for float64.
// When bitSize=32, the result still has type float64, but it will be
// convertible to float32 without changing its value.
//
// ParseFloat accepts decimal and hexadecimal floating-point numbers
// as defined by the Go syntax for [floating-point literals].
// If s is well-formed and near a valid floating-point number,
// ParseFloat returns the nearest floating-point number rounded
// using IEEE754 unbiased rounding.
// (Parsing a hexadecimal floating-point value only rounds when
// there are more bits in the hexadecimal representation than
// will fit in the mantissa.)
//
// The errors that ParseFloat returns have concrete type *NumError
// and include err.Num = s.
//
// If s is not syntactically well-formed, ParseFloat returns err.Err = ErrSyntax.
//
// If s is syntactically well-formed but is more than 1/2 ULP
// away from the largest floating point number of the given size,
// ParseFloat returns f = ±Inf, err.Err = ErrRange.
//
// ParseFloat recognizes the string "NaN", and the (possibly signed) strings "Inf" and "Infinity"
// as their respective special floating point values. It ignores case when matching.
//
// [floating-point literals]: https://go.dev/ref/spec#Floating-point_literals
func ParseFloat(s string, bitSize int) (float64, error) {
	f, n, err := parseFloatPrefix(s, bitSize)
	if n != len(s) && (err == nil || err.(*NumError).Err != ErrSyntax) {
		return 0, syntaxError(fnParseFloat, s)
	}
	return f, err
}

func parseFloatPrefix(s string, bitSize int) (float64, int, error) {
	if bitSize == 32 {
		f, n, err := atof32(s)
		return float64(f), n, err
	}
	return atof64(s)
}
