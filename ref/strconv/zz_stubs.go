// NOT part of the Go standard library: minimal stand-ins for the few identifiers that atof.go
// uses from other files of package strconv (atoi.go), so that the three verbatim files
// eisel_lemire.go, decimal.go and atof.go (copied unmodified from Go 1.23.5, see SHA256SUMS)
// type-check on their own. Only error construction lives here; no numeric code.

package strconv

import "errors"

var ErrRange = errors.New("value out of range")
var ErrSyntax = errors.New("invalid syntax")

type NumError struct {
	Func string
	Num  string
	Err  error
}

func (e *NumError) Error() string { return "strconv." + e.Func + ": parsing " + e.Num + ": " + e.Err.Error() }

func syntaxError(fn, str string) *NumError { return &NumError{fn, str, ErrSyntax} }
func rangeError(fn, str string) *NumError  { return &NumError{fn, str, ErrRange} }

// underscoreOK is defined in atoi.go; rjson's literals never contain underscores.
func underscoreOK(s string) bool { return false }

// lower is defined in atoi.go.
func lower(c byte) byte { return c | ('x' - 'X') }

// floatInfo, float32info, float64info are defined in ftoa.go (values copied from Go 1.23.5).
type floatInfo struct {
	mantbits uint
	expbits  uint
	bias     int
}

var float32info = floatInfo{23, 8, -127}
var float64info = floatInfo{52, 11, -1023}
