// Copyright 2009 The Go Authors. All rights reserved.
// Use of this source code is governed by a BSD-style
// license that can be found in the LICENSE file.

// Multiprecision decimal numbers.
// For floating-point formatting only; not general purpose.
// Only operations are assign and (binary) left/right shift.
// Can do binary floating point in multiprecision decimal precisely
// because 2 divides 10; cannot do decimal floating point
// in multiprecision binary precisely.

package strconv

type decimal struct {
	d     [800]byte // digits, big-endian representation
	nd    int       // number of digits used
	dp    int       // decimal point
	neg   bool      // negative flag
	trunc bool      // discarded nonzero digits beyond d[:nd]
}

func (a *decimal) String() string {
	n := 10 + a.nd
	if a.dp > 0 {
		n += a.dp
	}
	if a.dp < 0 {
		n += -a.dp
	}

	buf := make([]byte, n)
	w := 0
	switch {
	case a.nd == 0:
		return "0"

	case a.dp <= 0:
		// zeros fill space between decimal point and digits
		buf[w] = '0'
		w++
		buf[w] = '.'
		w++
		w += digitZero(buf[w : w+-a.dp])
		w += copy(buf[w:], a.d[0:a.nd])

	case a.dp < a.nd:
		// decimal point in middle of digits
		w += copy(buf[w:], a.d[0:a.dp])
		buf[w] = '.'
		w++
		w += copy(buf[w:], a.d[a.dp:a.nd])

	default:
		// zeros fill space between digits and decimal point
		w += copy(buf[w:], a.d[0:a.nd])
		w += digitZero(buf[w : w+a.dp-a.nd])
	}
	return string(buf[0:w])
}

func digitZero(dst []byte) int {
	for i := range dst {
		dst[i] = '0'
	}
	return len(dst)
}

// trim trailing zeros from number.
// (They are meaningless; the decimal point is tracked
// independent of the number of digits.)
func trim(a *decimal) {
	for a.nd > 0 && a.d[a.nd-1] == '0' {
		a.nd--
	}
	if a.nd == 0 {
		a.dp = 0
	}
}

// Assign v to a.
func (a *decimal) Assign(v uint64) {
	var buf [24]byte

	// Write reversed decimal in buf.
	n := 0
	for v > 0 {
		v1 := v / 10
		v -= 10 * v1
		buf[n] = byte(v + '0')
		n++
		v = v1
	}

	// Reverse again to produce forward decimal in a.d.
	a.nd = 0
	for n--; n >= 0; n-- {
		a.d[a.nd] = buf[n]
		a.nd++
	}
	a.dp = a.nd
	trim(a)
}

// Maximum shift that we can do in one pass without overflow.
// A uint has 32 or 64 bits, and we have to be able to accommodate 9<<k.
const uintSize = 32 << (^uint(0) >> 63)
const maxShift = uintSize - 4

// Binary shift right (/ 2) by k bits.  k <= maxShift to avoid overflow.
func rightShift(a *decimal, k uint) {
	r := 0 // read pointer
	w := 0 // write pointer

	// Pick up enough leading digits to cover first shift.
	var n uint
	for ; n>>k == 0; r++ {
		if r >= a.nd {
			if n == 0 {
				// a == 0; shouldn't get here, but handle anyway.
				a.nd = 0
				return
			}
			for n>>k == 0 {
				n = n * 10
				r++
			}
			break
		}
		c := uint(a.d[r])
		n = n*10 + c - '0'
	}
	a.dp -= r - 1

	var mask uint = (1 << k) - 1

	// Pick up a digit, put down a digit.
	for ; r < a.nd; r++ {
		c := uint(a.d[r])
		dig := n >> k
		n &= mask
		a.d[w] = byte(dig + '0')
		w++
		n = n*10 + c - '0'
	}

	// Put down extra digits.
	for n > 0 {
		dig := n >> k
		n &= mask
		if w < len(a.d) {
			a.d[w] = byte(dig + '0')
			w++
		} else if dig > 0 {
			a.trunc = true
		}
		n = n * 10
	}

	a.nd = w
	trim(a)
}

// Cheat sheet for left shift: table indexed by shift count giving
// number of new digits that will be introduced by that shift.
//
// For example, leftcheats[4] = {2, "625"}.  That means that
// if we are shifting by 4 (multiplying by 16), it will add 2 digits
// when the string prefix is "625" through "999", and one fewer digit
// if the string prefix is "000" through "624".
//
// Credit for this trick goes to Ken.

type leftCheat struct {
	delta  int    // number of new digits
	cutoff string // minus one digit if original < a.
}

var leftcheats = []leftCheat{
	// Leading digits of 1/2^i = 5^i.
	// 5^23 is not an exact 64-bit floating point number,
	// so have to use bc for the math.
	// Go up to 60 to be large enough for 32bit and 64bit platforms.
	/*
		seq 60 | sed 's/^/5^/' | bc |
		awk 'BEGIN{ print "\t{ 0, \"\" }," }
		{
			log2 = log(2)/log(10)
			printf("\t{ %d, \"%s\" },\t// * %d\n",
				int(log2*NR+1), $0, 2**NR)
		}'
	*/
	{0, ""},
	{1, "5"},                                           // * 2
	{1, "25"},                                          // * 4
	{1, "125"},                                         // * 8
	{2, "625"},                                         // * 16
	{2, "3125"},                                        // * 32
	{2, "15625"},                                       // * 64
	{3, "78125"},                                       // * 128
	{3, "390625"},                                      // * 256
	{3, "1953125"},                                     // * 512
	{4, "9765625"},                                     // * 1024
	{4, "48828125"},                                    // * 2048
	{4, "244140625"},                                   // * 4096
	{4, "1220703125"},                                  // * 8192
	{5, "6103515625"},                                  // * 16384
	{5, "30517578125"},                                 // * 32768
	{5, "152587890625"},                                // * 65536
	{6, "762939453125"},                                // * 131072
	{6, "3814697265625"},                               // * 262144
	{6, "19073486328125"},                              // * 524288
	{7, "95367431640625"},                              // * 1048576
	{7, "476837158203125"},                             // * 2097152
	{7, "2384185791015625"},                            // * 4194304
	{7, "11920928955078125"},                           // * 8388608
	{8, "59604644775390625"},                           // * 16777216
	{8, "298023223876953125"},                          // * 33554432
	{8, "1490116119384765625"},                         // * 67108864
	{9, "7450580596923828125"},                         // * 134217728
	{9, "37252902984619140625"},                        // * 268435456
	{9, "186264514923095703125"},                       // * 536870912
	{10, "931322574615478515625"},                      // * 1073741824
	{10, "4656612873077392578125"},                     // * 2147483648
	{10, "23283064365386962890625"},                    // * 4294967296
	{10, "116415321826934814453125"},                   // * 8589934592
	{11, "582076609134674072265625"},                   // * 17179869184
	{11, "2910383045673370361328125"},                  // * 34359738368
	{11, "14551915228366851806640625"},                 // * 68719476736
	{12, "72759576141834259033203125"},                 // * 137438953472
	{12, "363797880709171295166015625"},                // * 274877906944
	{12, "1818989403545856475830078125"},               // * 549755813888
	{13, "9094947017729282379150390625"},               // * 1099511627776
	{13, "45474735088646411895751953125"},              // * 2199023255552
	{13, "227373675443232059478759765625"},             // * 4398046511104
	{13, "1136868377216160297393798828125"},            // * 8796093022208
	{14, "5684341886080801486968994140625"},            // * 17592186044416
	{14, "28421709430404007434844970703125"},           // * 35184372088832
	{14, "142108547152020037174224853515625"},          // * 70368744177664
	{15, "710542735760100185871124267578125"},          // * 140737488355328
	{15, "3552713678800500929355621337890625"},         // * 281474976710656
	{15, "17763568394002504646778106689453125"},        // * 562949953421312
	{16, "88817841970012523233890533447265625"},        // * 1125899906842624
	{16, "444089209850062616169452667236328125"},       // * 2251799813685248
	{16, "2220446049250313080847263336181640625"},      // * 4503599627370496
	{16, "11102230246251565404236316680908203125"},     // * 9007199254740992
	{17, "55511151231257827021181583404541015625"},     // * 18014398509481984
	{17, "277555756156289135105907917022705078125"},    // * 36028797018963968
	{17, "1387778780781445675529539585113525390625"},   // * 72057594037927936
	{18, "6938893903907228377647697925567626953125"},   // * 144115188075855872
	{18, "34694469519536141888238489627838134765625"},  // * 288230376151711744
	{18, "173472347597680709441192448139190673828125"}, // * 576460752303423488
	{19, "867361737988403547205962240695953369140625"}, // * 1152921504606846976
}

// Is the leading prefix of b lexicographically less than s?
func prefixIsLessThan(b []byte, s string) bool {
	for i := 0; i < len(s); i++ {
		if i >= len(b) {
			return true
		}
		if b[i] != s[i] {
			return b[i] < s[i]
		}
	}
	return false
}

// Binary shift left (* 2) by k bits.  k <= maxShift to avoid overflow.
func leftShift(a *decimal, k uint) {
	delta := leftcheats[k].delta
	if prefixIsLessThan(a.d[0:a.nd], leftcheats[k].cutoff) {
		delta--
	}

	r := a.nd         // read index
	w := a.nd + delta // write index

	// Pick up a digit, put down a digit.
	var n uint
	for r--; r >= 0; r-- {
		n += (uint(a.d[r]) - '0') << k
		quo := n / 10
		rem := n - 10*quo
		w--
		if w < len(a.d) {
			a.d[w] = byte(rem + '0')
		} else if rem != 0 {
			a.trunc = true
		}
		n = quo
	}

	// Put down extra digits.
	for n > 0 {
		quo := n / 10
		rem := n - 10*quo
		w--
		if w < len(a.d) {
			a.d[w] = byte(rem + '0')
		} else if rem != 0 {
			a.trunc = true
		}
		n = quo
	}

	a.nd += delta
	if a.nd >= len(a.d) {
		a.nd = len(a.d)
	}
	a.dp += delta
	trim(a)
}

// Binary shift left (k > 0) or right (k < 0).
func (a *decimal) Shift(k int) {
	switch {
	case a.nd == 0:
		// nothing to do: a == 0
	case k > 0:
		for k > maxShift {
			leftShift(a, maxShift)
			k -= maxShift
		}
		leftShift(a, uint(k))
	case k < 0:
		for k < -maxShift {
			rightShift(a, maxShift)
			k += maxShift
		}
		rightShift(a, uint(-k))
	}
}

// If we chop a at nd digits, should we round up?
func shouldRoundUp(a *decimal, nd int) bool {
	if nd < 0 || nd >= a.nd {
		return false
	}
	if a.d[nd] == '5' && nd+1 == a.nd { // exactly halfway - round to even
		// if we truncated, a little higher than what's recorded - always round up
		if a.trunc {
			return true
		}
		return nd > 0 && (a.d[nd-1]-'0')%2 != 0
	}
	// not halfway - digit tells all
	return a.d[nd] >= '5'
}

// Round a to nd digits (or fewer).
// If nd is zero, it means we're rounding
// just to the left of the digits, as in
// 0.09 -> 0.1.
func (a *decimal) Round(nd int) {
	if nd < 0 || nd >= a.nd {
		return
	}
	if shouldRoundUp(a, nd) {
		a.RoundUp(nd)
	} else {
		a.RoundDown(nd)
	}
}

// Round a down to nd digits (or fewer).
func (a *decimal) RoundDown(nd int) {
	if nd < 0 || nd >= a.nd {
		return
	}
	a.nd = nd
	trim(a)
}

// Round a up to nd digits (or fewer).
func (a *decimal) RoundUp(nd int) {
	if nd < 0 || nd >= a.nd {
		return
	}

	// round up
	for i := nd - 1; i >= 0; i-- {
		c := a.d[i]
		if c < '9' { // can stop after this digit
			a.d[i]++
			a.nd = i + 1
			return
		}
	}

	// Number is all 9s.
	// Change to single 1 with adjusted decimal point.
	a.d[0] = '1'
	a.nd = 1
	a.dp++
}

// Extract integer part, rounded appropriately.
// No guarantees about overflow.
func (a *decimal) RoundedInteger() uint64 {
	if a.dp > 20 {
		return 0xFFFFFFFFFFFFFFFF
	}
	var i int
	n := uint64(0)
	for i = 0; i < a.dp && i < a.nd; i++ {
		n = n*10 + uint64(a.d[i]-'0')
	}
	for ; i < a.dp; i++ {
		n *= 10
	}
	if shouldRoundUp(a, a.dp) {
		n++
	}
	return n
}
