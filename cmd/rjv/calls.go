package main

// Calls: builtins, callee contracts, interface invokes (handler contract), assumed externs.

import (
	"fmt"
	"go/token"
	"go/types"
	"strings"

	"golang.org/x/tools/go/ssa"
)

func (ex *Exec) call(st *State, i *ssa.Call) []*State {
	c := i.Call
	if c.IsInvoke() {
		return ex.invoke(st, i)
	}
	switch f := c.Value.(type) {
	case *ssa.Builtin:
		return ex.builtin(st, i, f)
	case *ssa.Function:
		return ex.staticCall(st, i, f)
	case *ssa.MakeClosure:
		ex.unsupported(st, "call of closure", i.Pos())
	default:
		// call through a function value (e.g. HandlerFunc adapters)
		ex.unsupported(st, fmt.Sprintf("dynamic call via %T", c.Value), i.Pos())
	}
	st.regs[i] = ex.freshValue(st, "callres", i.Type(), "fresh")
	return []*State{st}
}

func (ex *Exec) builtin(st *State, i *ssa.Call, b *ssa.Builtin) []*State {
	args := i.Call.Args
	switch b.Name() {
	case "len":
		switch v := ex.val(st, args[0]).(type) {
		case *SliceV:
			st.regs[i] = v.Len
		case *StringV:
			st.regs[i] = v.Len
		case *ArrayV:
			st.regs[i] = I64(v.Len)
		case *MapV, *OpaqueV:
			n := ex.fresh("maplen", BV(64))
			st.assume(Sle(I64(0), n))
			st.regs[i] = n
		default:
			ex.unsupported(st, fmt.Sprintf("len of %T", v), i.Pos())
			st.regs[i] = ex.fresh("len", BV(64))
		}
	case "cap":
		if v, ok := ex.val(st, args[0]).(*SliceV); ok {
			st.regs[i] = v.Cap
		} else {
			ex.unsupported(st, "cap of non-slice", i.Pos())
			st.regs[i] = ex.fresh("cap", BV(64))
		}
	case "append":
		return ex.appendOp(st, i)
	case "ssa:wrapnilchk":
		st.regs[i] = ex.val(st, args[0])
	case "ssa:deferstack":
		st.regs[i] = &OpaqueV{Name: "deferstack"}
	default:
		ex.unsupported(st, "builtin "+b.Name(), i.Pos())
		st.regs[i] = ex.freshValue(st, "builtin", i.Type(), "fresh")
	}
	return []*State{st}
}

// appendOp models append(s, t...) with value semantics: in place when capacity suffices,
// otherwise a fresh region whose prefix equals the old contents. Both outcomes are explored.
func (ex *Exec) appendOp(st *State, i *ssa.Call) []*State {
	args := i.Call.Args
	sv, ok := ex.val(st, args[0]).(*SliceV)
	if !ok {
		if _, isOp := ex.val(st, args[0]).(*OpaqueV); isOp {
			// slices of unsupported element types ([]interface{}): only the allocation event is kept
			st.regs[i] = &OpaqueV{T: i.Type(), Name: "append"}
			st.events = append(st.events, &Event{Kind: "append-opaque", Site: ex.siteName(i.Pos(), "append"), NPC: len(st.pc), Pos: i.Pos()})
			return []*State{st}
		}
		ex.unsupported(st, "append to non-slice", i.Pos())
		st.regs[i] = ex.freshValue(st, "append", i.Type(), "fresh")
		return []*State{st}
	}
	var tReg *Region
	var tOff, tLen *Term
	switch tv := ex.val(st, args[1]).(type) {
	case *SliceV:
		tReg, tOff, tLen = tv.Reg, tv.Off, tv.Len
	case *StringV:
		tReg, tOff, tLen = tv.Reg, tv.Off, tv.Len
	default:
		ex.unsupported(st, fmt.Sprintf("append of %T", tv), i.Pos())
		st.regs[i] = ex.freshValue(st, "append", i.Type(), "fresh")
		return []*State{st}
	}
	newLen := Add(sv.Len, tLen)
	es := sv.Reg.Elem
	if tLen.IsConst() && tLen.Val.Sign() == 0 {
		// appending nothing: Go returns s unchanged (possibly with the same backing array)
		st.regs[i] = sv
		return []*State{st}
	}
	fits := Sle(newLen, sv.Cap)
	var out []*State
	srcArr := func(s *State) *Term { return s.loadArr(ex, tReg) }
	// in place
	if fits != False {
		a := st.clone()
		a.assume(fits)
		a.branches = append(a.branches, fits)
		if !a.dead {
			ex.frameCheckRegion(a, sv.Reg, i.Pos())
			old := a.loadArr(ex, sv.Reg)
			var na *Term
			if tLen.IsConst() && tLen.Val.IsInt64() && tLen.Val.Int64() <= 8 {
				na = old
				src := srcArr(a)
				for k := int64(0); k < tLen.Val.Int64(); k++ {
					na = Store(na, Add(Add(sv.Off, sv.Len), I64(k)), Select(src, Add(tOff, I64(k))))
				}
			} else {
				na = ex.fresh("app.arr", ArraySort(BV(64), es))
				src := srcArr(a)
				base := Add(sv.Off, sv.Len)
				bv := Fresh("q.k", BV(64))
				inNew := And(Sle(base, bv), Slt(bv, Add(base, tLen)))
				body := Ite(inNew, Eq(Select(na, bv), Select(src, Add(tOff, Sub(bv, base)))), Eq(Select(na, bv), Select(old, bv)))
				a.qfacts = append(a.qfacts, &QFact{Guard: True, BV: bv, Lo: nil, Hi: nil, Body: body, Name: "append-inplace", At: len(a.pc)})
			}
			a.store[sv.Reg] = &ArrayV{Arr: na}
			a.regs[i] = &SliceV{Reg: sv.Reg, Off: sv.Off, Len: newLen, Cap: sv.Cap, ElemT: sv.ElemT}
			out = append(out, a)
		}
	}
	// grow
	if fits != True {
		b := st
		b.assume(Not(fits))
		b.branches = append(b.branches, Not(fits))
		if !b.dead {
			r := newRegion("grown", es, "fresh")
			old := b.loadArr(ex, sv.Reg)
			src := srcArr(b)
			na := ex.fresh("grown.arr", ArraySort(BV(64), es))
			ncap := ex.fresh("grown.cap", BV(64))
			b.assume(And(Sle(newLen, ncap), Sle(ncap, I64(1<<maxAllocLog))))
			// A-growth (Go runtime growslice, assumed; used by the allocation-bound obligations only):
			// the new capacity is at most 2*needed+32 elements, at least 1.25x the old capacity, and at
			// least twice the old capacity while that is below 256 elements
			b.assume(And(Sle(ncap, Add(Mul(newLen, I64(2)), I64(32))), Sle(Add(sv.Cap, BVOp("bvashr", sv.Cap, I64(2))), ncap),
				Implies(Slt(sv.Cap, I64(256)), Sle(Mul(sv.Cap, I64(2)), ncap))))
			if tLen.IsConst() && tLen.Val.IsInt64() && tLen.Val.Int64() <= 8 {
				// prefix copied, then the few new elements
				bv := Fresh("q.k", BV(64))
				body := Eq(Select(na, bv), Select(old, Add(sv.Off, bv)))
				b.qfacts = append(b.qfacts, &QFact{Guard: True, BV: bv, Lo: I64(0), Hi: sv.Len, Body: body, Name: "append-grow-prefix", At: len(b.pc)})
				for k := int64(0); k < tLen.Val.Int64(); k++ {
					b.assume(Eq(Select(na, Add(sv.Len, I64(k))), Select(src, Add(tOff, I64(k)))))
				}
			} else {
				bv := Fresh("q.k", BV(64))
				body := Ite(Slt(bv, sv.Len), Eq(Select(na, bv), Select(old, Add(sv.Off, bv))),
					Eq(Select(na, bv), Select(src, Add(tOff, Sub(bv, sv.Len)))))
				b.qfacts = append(b.qfacts, &QFact{Guard: True, BV: bv, Lo: I64(0), Hi: newLen, Body: body, Name: "append-grow", At: len(b.pc)})
			}
			b.store[r] = &ArrayV{Arr: na}
			b.regs[i] = &SliceV{Reg: r, Off: I64(0), Len: newLen, Cap: ncap, ElemT: sv.ElemT}
			b.events = append(b.events, &Event{Kind: "alloc", Site: ex.siteName(i.Pos(), "append-grow"),
				Info: map[string]*Term{"bytes": Mul(ncap, I64(sizeofType(sv.ElemT))), "needed": newLen, "oldcap": sv.Cap}, NPC: len(b.pc), Pos: i.Pos()})
			ex.addAlloc(b, Mul(ncap, I64(sizeofType(sv.ElemT))))
			out = append(out, b)
		}
	}
	return out
}

func (s *State) loadArr(ex *Exec, r *Region) *Term {
	v := ex.load(s, Place{Root: r})
	if a, ok := v.(*ArrayV); ok {
		return a.Arr
	}
	panic("region without array contents")
}

func (ex *Exec) frameCheckRegion(st *State, r *Region, pos token.Pos) {
	ex.obligeAlways(st, "frame", ex.siteName(pos, "write-not-to-input"), BoolC(!r.Input), pos)
}

// ---- interface invokes ----

func (ex *Exec) invoke(st *State, i *ssa.Call) []*State {
	c := i.Call
	name := c.Method.Name()
	var args []Value
	for _, a := range c.Args {
		args = append(args, ex.val(st, a))
	}
	switch name {
	case "HandleArrayValue", "HandleObjectValue":
		// handler results: named by call site and ordinal on the path, so that two runs compared by
		// the relational driver see the same handler (deterministic in call index and arguments)
		nInv := 0
		for _, ev := range st.events {
			if ev.Kind == "invoke" {
				nInv++
			}
		}
		var pp, herr *Term
		if ex.relMode {
			pp = Var(fmt.Sprintf("h.p@%s#%d", ex.siteName(i.Pos(), name), nInv), BV(64))
			herr = Var(fmt.Sprintf("h.err@%s#%d", ex.siteName(i.Pos(), name), nInv), ErrSort)
		} else {
			pp = ex.fresh("h.p", BV(64))
			herr = ex.fresh("h.err", ErrSort)
		}
		ev := &Event{Kind: "invoke", Site: ex.siteName(i.Pos(), name), Args: args, Res: []Value{pp, herr}, NPC: len(st.pc), Pos: i.Pos(),
			Info: map[string]*Term{"p": pp, "err": herr}}
		st.events = append(st.events, ev)
		// ghost: the first non-nil handler error of this traversal; no call may follow it
		gh, ok := st.ghost["herr"]
		if !ok {
			gh = NilErr
		}
		ex.obligeAlways(st, "err-identity", ex.siteName(i.Pos(), "no-handler-call-after-handler-error"), Eq(gh, NilErr), i.Pos())
		st.ghost["herr"] = Ite(Eq(gh, NilErr), herr, gh)
		// The handler may re-enter the library with the same Buffer: the contents of every
		// scratch region reachable from the caller's parameters are havocked.
		for root := range st.store {
			if r, ok := root.(*Region); ok && !r.Input && r.Kind != "string" && r.Kind != "view" && r.Kind != "nil" && ex.scratchRegion(r) {
				st.store[r] = &ArrayV{Arr: ex.fresh(r.Name+".havoc", ArraySort(BV(64), r.Elem))}
			}
		}
		if ex.handlerHook != nil {
			ex.handlerHook(st, ev, args)
		}
		if ex.mode == "wellbehaved" && ex.simVariant != "" {
			ex.wellBehavedHandler(st, ev, args, pp, herr)
		} else {
			st.ghost["rspos"] = I64(-1)
		}
		st.regs[i] = TupleV{pp, herr}
		return []*State{st}
	case "Error":
		st.regs[i] = ex.freshValue(st, "errstr", i.Type(), "fresh")
		return []*State{st}
	}
	ex.unsupported(st, "invoke "+name, i.Pos())
	st.regs[i] = ex.freshValue(st, "invoke", i.Type(), "fresh")
	return []*State{st}
}

// scratchRegion: every non-input, non-fresh-in-this-path region may be shared with the handler.
// Fresh regions allocated by this function during the current call cannot be known to the handler
// unless they were published; the machines publish nothing before returning, so only parameter
// regions and regions of unknown origin (havocked at cut points) are shared.
func (ex *Exec) scratchRegion(r *Region) bool {
	return r.Kind == "param" || r.Kind == "cut"
}

// ---- static calls ----

func calleeKey(f *ssa.Function) string {
	pkg := ""
	if f.Pkg != nil {
		pkg = f.Pkg.Pkg.Name()
	}
	name := f.Name()
	if recv := f.Signature.Recv(); recv != nil {
		rt := recv.Type().String()
		if i := strings.LastIndex(rt, "."); i >= 0 {
			star := ""
			if strings.HasPrefix(rt, "*") {
				star = "*"
			}
			rt = star + rt[i+1:]
		}
		name = "(" + rt + ")." + name
	}
	return pkg + "." + name
}

func (ex *Exec) staticCall(st *State, i *ssa.Call, f *ssa.Function) []*State {
	var args []Value
	for _, a := range i.Call.Args {
		args = append(args, ex.val(st, a))
	}
	key := calleeKey(f)
	if ext, ok := externs[key]; ok {
		st.regs[i] = ext(ex, st, i, args)
		return []*State{st}
	}
	if canon, ok := ex.equivCalls[key]; ok {
		st.regs[i] = ex.equivCall(st, i, f, canon, args)
		return []*State{st}
	}
	fc := ex.eng.contracts.Funcs[key]
	if fc == nil {
		ex.unsupported(st, "call to "+key+" (no contract)", i.Pos())
		st.events = append(st.events, &Event{Kind: "call-nocontract", Site: key, NPC: len(st.pc), Pos: i.Pos()})
		st.regs[i] = ex.freshValue(st, "res."+f.Name(), i.Type(), "fresh")
		return []*State{st}
	}
	res := ex.applyContract(st, i, f, fc, args)
	st.regs[i] = res
	return []*State{st}
}

// applyContract: assert requires, havoc assigns, introduce results, assume ensures.
func (ex *Exec) applyContract(st *State, i *ssa.Call, f *ssa.Function, fc *FuncContract, args []Value) Value {
	site := ex.siteName(i.Pos(), "call:"+f.Name())
	sig := f.Signature
	// parameter environment (entry values, caller's view)
	vars := map[string]TV{}
	k := 0
	if sig.Recv() != nil {
		if len(fc.Params) > 0 {
			vars[fc.Params[0]] = TV{V: args[0], Signed: isSigned(sig.Recv().Type())}
		}
		k = 1
	}
	for j := 0; j < sig.Params().Len(); j++ {
		name := sig.Params().At(j).Name()
		if k+j < len(fc.Params) {
			name = fc.Params[k+j]
		}
		vars[name] = TV{V: args[k+j], Signed: isSigned(sig.Params().At(j).Type())}
	}
	pre := st.clone() // snapshot for old()
	oldEnv := &Env{ex: ex, st: pre, vars: vars, lets: letMap(fc), pkg: calleePkg(f)}
	// spec-run clauses of the callee speak about the run named by (variant, limit) that starts at
	// the callee's data[0] (unless init=none: then they are relative to the caller's run). They may
	// be used only when that is the caller's run too: same variant and limit, and, for a callee with
	// its own start, the argument slice starts at offset 0 of the input region.
	simOK := true
	if ex.simVariant != "" {
		if cfg, err := parseSimCfg(fc); err != nil || cfg == nil {
			simOK = false
		} else {
			// a relative contract (init=none) speaks about the caller's run whatever it is; that the
			// callee's proof covers that run is the business of the property's job list (simAs jobs)
			if fc.SimOpts["init"] != "none" && (cfg.Variant != ex.simVariant || cfg.Limit != ex.simLimit) {
				simOK = false
			}
			if fc.SimOpts["init"] != "none" {
				if sv, ok := vars[cfg.Data].V.(*SliceV); !ok || sv.Off != I64(0) {
					simOK = false
				}
			}
		}
	}
	active := func(c *Clause) bool {
		if (c.Mode == "sim" || c.Mode == "simwb") && !simOK {
			return false
		}
		return ex.clauseActive(c)
	}
	// requires
	for n, c := range fc.Requires {
		if !active(c) {
			continue
		}
		env := &Env{ex: ex, st: st, vars: vars, lets: letMap(fc), prove: true, pkg: calleePkg(f)}
		var hs []*Term
		var qs []*QFact
		env.hsink, env.qsink = &hs, &qs
		t, err := env.EvalBool(c.Expr)
		if err != nil {
			ex.unsupported(st, fmt.Sprintf("requires of %s: %v", fc.Name, err), i.Pos())
			continue
		}
		for _, h := range hs {
			st.assume(h)
		}
		st.qfacts = append(st.qfacts, qs...)
		ex.oblige(st, "requires@call", fmt.Sprintf("%s/requires#%d", site, n+1), t, i.Pos())
	}
	st.events = append(st.events, &Event{Kind: "call", Site: calleeKey(f), Args: args, NPC: len(st.pc), Pos: i.Pos()})
	// assigns: havoc what the callee may write
	for _, a := range fc.Assigns {
		ex.havocAssign(st, a, vars, i.Pos())
	}
	// ghost allocation counter: the callee adds an unknown non-negative amount, constrained by its ensures
	{
		g, ok := st.ghost["alloc"]
		if !ok {
			g = I64(0)
		}
		d := ex.fresh("alloc."+f.Name(), BV(64))
		st.assume(And(Sle(I64(0), d), Sle(d, I64(1<<56))))
		if fc.NoAlloc {
			d = I64(0)
		}
		st.ghost["alloc"] = Add(g, d)
	}
	// ghost state written by the callee
	if fc.Ghost {
		gh, ok := st.ghost["herr"]
		if !ok {
			gh = NilErr
		}
		st.ghost["herr"] = Ite(Eq(gh, NilErr), ex.fresh("ghost_herr", ErrSort), gh)
	}
	// results
	var results TupleV
	rs := sig.Results()
	resVars := map[string]TV{}
	for k, v := range vars {
		resVars[k] = v
	}
	for j := 0; j < rs.Len(); j++ {
		name := fmt.Sprintf("r%d", j)
		if j < len(fc.Results) {
			name = fc.Results[j]
		}
		rv := ex.freshValue(st, f.Name()+"."+name, rs.At(j).Type(), "fresh")
		if ex.relMode {
			// relational proofs: a callee under contract is a deterministic function of its arguments
			if so := sortOf(rs.At(j).Type()); so != nil {
				if fa, ok := flattenArgs(ex, st, args, f, fc); ok {
					rv = App("det."+f.Name()+"."+name, so, fa...)
				}
			}
		}
		results = append(results, rv)
		resVars[name] = TV{V: rv, Signed: isSigned(rs.At(j).Type())}
	}
	if fc.Pure {
		ex.purify(st, pre, f, args, results)
	}
	// ensures
	for _, c := range append(append([]*Clause{}, fc.Ensures...), fc.Defines...) {
		if !active(c) {
			continue
		}
		env := &Env{ex: ex, st: st, vars: resVars, lets: letMap(fc), old: oldEnv, pkg: calleePkg(f)}
		var hs []*Term
		var qs []*QFact
		env.hsink, env.qsink = &hs, &qs
		t, err := env.EvalBool(c.Expr)
		if err != nil {
			ex.unsupported(st, fmt.Sprintf("ensures of %s: %v", fc.Name, err), i.Pos())
			continue
		}
		for _, h := range hs {
			st.assume(h)
		}
		st.qfacts = append(st.qfacts, qs...)
		st.assume(t)
	}
	if rs.Len() == 1 {
		return results[0]
	}
	return results
}

func letMap(fc *FuncContract) map[string]*LetDef {
	m := map[string]*LetDef{}
	if theContracts != nil {
		for k, v := range theContracts.Globals {
			m[k] = v
		}
	}
	if fc == nil {
		return m
	}
	for _, l := range fc.Lets {
		m[l.Name] = l
	}
	return m
}

// havocAssign handles `assigns` targets: *v, contents(s), x.f, nothing.
func (ex *Exec) havocAssign(st *State, target string, vars map[string]TV, pos token.Pos) {
	target = strings.TrimSpace(target)
	if target == "nothing" || target == "" {
		return
	}
	switch {
	case strings.HasPrefix(target, "*"):
		name := strings.TrimPrefix(target, "*")
		if tv, ok := vars[name]; ok {
			if pv, ok := tv.V.(*PtrV); ok && pv.Nil != True {
				ex.storeTo(st, pv.P, ex.freshValue(st, "havoc."+name, pv.T, "fresh"))
				return
			}
		}
	case strings.HasPrefix(target, "contents(") && strings.HasSuffix(target, ")"):
		name := target[len("contents(") : len(target)-1]
		if tv, ok := vars[name]; ok {
			if sv, ok := tv.V.(*SliceV); ok {
				if sv.Reg.Kind == "nil" {
					return
				}
				ex.frameCheckRegion(st, sv.Reg, pos)
				st.store[sv.Reg] = &ArrayV{Arr: ex.fresh(sv.Reg.Name+".havoc", ArraySort(BV(64), sv.Reg.Elem))}
				return
			}
		}
	case strings.Contains(target, "."):
		parts := strings.SplitN(target, ".", 2)
		if tv, ok := vars[parts[0]]; ok {
			if pv, ok := tv.V.(*PtrV); ok && pv.Nil != True {
				stt, ok := pv.T.Underlying().(*types.Struct)
				if ok {
					for f := 0; f < stt.NumFields(); f++ {
						if stt.Field(f).Name() == parts[1] {
							np := Place{Root: pv.P.Root, Path: append(append([]PathElem{}, pv.P.Path...), PathElem{Field: f})}
							ex.storeTo(st, np, ex.freshValue(st, "havoc."+target, stt.Field(f).Type(), "fresh"))
							return
						}
					}
				}
			}
		}
	}
	ex.unsupported(st, "assigns target "+target, pos)
}

// ---- assumed contracts of functions outside the module ----

type externFn func(ex *Exec, st *State, i *ssa.Call, args []Value) Value

var externs = map[string]externFn{}

func init() {
	externs["fmt.Errorf"] = func(ex *Exec, st *State, i *ssa.Call, args []Value) Value {
		e := ex.fresh("errorf", ErrSort)
		st.assume(Not(Eq(e, NilErr)))
		ex.allocEvent(st, "fmt.Errorf", I64(64), i.Pos())
		return e
	}
	externs["fmt.Sprintf"] = func(ex *Exec, st *State, i *ssa.Call, args []Value) Value {
		ex.allocEvent(st, "fmt.Sprintf", I64(64), i.Pos())
		return ex.freshValue(st, "sprintf", i.Type(), "fresh")
	}
}

// clauseActive: clauses tagged @sim belong to the spec-simulation proofs, @hostile/@wellbehaved
// to the handler mode; untagged clauses are always active.
func (ex *Exec) clauseActive(c *Clause) bool {
	switch c.Mode {
	case "":
		return true
	case "sim":
		return ex.simVariant != ""
	case "alloc":
		return ex.allocMode
	case "simwb":
		return ex.simVariant != "" && ex.mode == "wellbehaved"
	default:
		return c.Mode == ex.mode
	}
}

// flattenArgs: scalar arguments and (array, offset, length) of input slices; ok=false when an
// argument is something else (then no determinism is assumed for the call).
func flattenArgs(ex *Exec, st *State, args []Value, f *ssa.Function, fc *FuncContract) ([]*Term, bool) {
	var out []*Term
	for k, a := range args {
		// scratch parameters of the callee do not influence its results (its own relational proof)
		if fc != nil && k < len(f.Params) && fc.Scratch[f.Params[k].Name()] {
			continue
		}
		switch v := a.(type) {
		case *Term:
			out = append(out, v)
		case *SliceV:
			if !v.Reg.Input {
				return nil, false
			}
			out = append(out, st.loadArr(ex, v.Reg), v.Off, v.Len)
		default:
			return nil, false
		}
	}
	return out, true
}

// wellBehavedHandler: the handler contract of C07. A handler that returns a nil error returns
// either 0 or the exact end of the value it was given; "exact end" is stated on the spec run:
// at VE = (start of the value) + pp the run is in the after-value state of the same context with
// the same depth and the same enclosing frames, VE lies inside the input, and the byte before VE
// closes the value (L-closer: a string ends with '"', an array with ']', an object with '}').
// The ghost resync position records that the machine now re-reads that closing byte.
func (ex *Exec) wellBehavedHandler(st *State, ev *Event, args []Value, pp, herr *Term) {
	dsl, ok := args[len(args)-1].(*SliceV)
	if !ok || !dsl.Reg.Input {
		return
	}
	arr := st.loadArr(ex, dsl.Reg)
	if arr.Op != "var" {
		return
	}
	tab := specTab()
	p0 := dsl.Off
	ve := Add(p0, pp)
	b0 := Select(arr, p0)
	q0 := ex.Rq(arr, p0)
	d0 := ex.Rdepth(arr, p0)
	isStr := Eq(b0, BVI(8, '"'))
	isArr := Eq(b0, BVI(8, '['))
	isObj := Eq(b0, BVI(8, '{'))
	closer := Ite(isStr, BVI(8, '"'), Ite(isArr, BVI(8, ']'), BVI(8, '}')))
	exact := And(Eq(herr, NilErr), Not(Eq(pp, I64(0))))
	guard := And(exact, Or(isStr, isArr, isObj))
	// kept as separate hypotheses so that the ones that do not mention the spec run survive the
	// light proof tier
	st.assume(Implies(guard, And(Slt(I64(0), pp), Sle(pp, dsl.Len))))
	st.assume(Implies(guard, Eq(Select(arr, Sub(ve, I64(1))), closer)))
	st.assume(Implies(guard, And(
		Eq(ex.Rdepth(arr, ve), d0),
		Eq(ex.Rq(arr, ve), afterOfCtx(tab, App("spec.ctxof", BV(8), q0))))))
	// a well-behaved handler given a number/literal returns 0 or its end; the code does not use it
	bv := Fresh("q.f", BV(64))
	st.qfacts = append(st.qfacts, &QFact{Guard: And(exact, Or(isStr, isArr, isObj)), BV: bv, Lo: I64(0), Hi: d0,
		Body: Eq(Select(ex.Rframe(arr, ve), bv), Select(ex.Rframe(arr, p0), bv)), Name: "handler-frames", At: len(st.pc), Seeds: []*Term{Sub(d0, I64(1)), Sub(d0, I64(2))}})
	st.ghost["rspos"] = Ite(And(exact, Or(isStr, isArr, isObj)), Sub(ve, I64(1)), I64(-1))
	st.ghost["rsb"] = closer
	ev.Info["memberpos"] = p0
}

func calleePkg(f *ssa.Function) *types.Package {
	if f != nil && f.Pkg != nil {
		return f.Pkg.Pkg
	}
	return nil
}

// purify: the callee is a function of its arguments: its scalar results, and the memory it
// writes through pointer arguments, are named deterministically (same names as pure(...) and
// fpslow(...) in contracts).
func (ex *Exec) purify(st, pre *State, f *ssa.Function, args []Value, results TupleV) {
	key := calleeKey(f)
	var flat []*Term
	// flatten against the pre-state (the snapshot kept for old()): pointees were already havocked by `assigns`
	for _, a := range args {
		ex.flattenEq(pre, a, &flat)
	}
	for k, a := range args {
		if pv, ok := a.(*PtrV); ok && pv.P.Root != nil {
			if _, isGlobal := pv.P.Root.(*ssa.Global); isGlobal {
				continue
			}
			old := ex.load(pre, pv.P)
			ex.storeTo(st, pv.P, ex.detValue(fmt.Sprintf("pure.%s.arg%d", key, k), old, nil, flat))
		}
	}
	rs := f.Signature.Results()
	for j := 0; j < rs.Len() && j < len(results); j++ {
		so := sortOf(rs.At(j).Type())
		if so == nil {
			continue
		}
		t := App(fmt.Sprintf("pure.%s.res%d", key, j), so, flat...)
		if old, ok := results[j].(*Term); ok && old.Sort == so {
			st.assume(Eq(old, t))
		}
	}
}
