package main

// Enumeration of the master transducer's local states into a table, and its SMT-LIB rendering
// (define-funs spec.stepq / spec.stepop / spec.endbefore used by the simulation obligations).

import (
	"fmt"
	"sort"
	"strings"
)

type specTable struct {
	states  []rjvSpecLocal
	id      map[rjvSpecLocal]int
	stepq   [][256]int // successor id; for pops the entry is specPopMark
	stepop  [][256]int
	endb    [][256]bool
	prelude string
}

const specPopMark = 255

const (
	ctxKindTop = 0
	ctxKindArr = 1
	ctxKindObj = 2
)

var theSpec *specTable

func specTab() *specTable {
	if theSpec == nil {
		theSpec = buildSpecTable()
	}
	return theSpec
}

func buildSpecTable() *specTable {
	t := &specTable{id: map[rjvSpecLocal]int{}}
	add := func(q rjvSpecLocal) int {
		if i, ok := t.id[q]; ok {
			return i
		}
		t.id[q] = len(t.states)
		t.states = append(t.states, q)
		return len(t.states) - 1
	}
	add(rjvSpecLocal{Ctl: rjvSpecDead})
	add(rjvSpecLocal{Ctl: rjvSpecDone})
	add(rjvSpecLocal{Ctl: rjvSpecBefore, Ctx: rjvSpecCtxTop})
	add(rjvSpecLocal{Ctl: rjvSpecTravArr})
	add(rjvSpecLocal{Ctl: rjvSpecTravObj})
	for _, c := range []rjvSpecCtx{rjvSpecCtxTop, rjvSpecCtxArr, rjvSpecCtxObj} {
		add(rjvSpecAfterValue(c))
	}
	for i := 0; i < len(t.states); i++ {
		q := t.states[i]
		for b := 0; b < 256; b++ {
			nq, op, _ := rjvSpecStep(q, byte(b))
			if op != rjvSpecOpPop {
				add(nq)
			}
		}
	}
	n := len(t.states)
	if n >= specPopMark {
		panic("too many spec states")
	}
	t.stepq = make([][256]int, n)
	t.stepop = make([][256]int, n)
	t.endb = make([][256]bool, n)
	for i, q := range t.states {
		for b := 0; b < 256; b++ {
			nq, op, eb := rjvSpecStep(q, byte(b))
			t.stepop[i][b] = op
			t.endb[i][b] = eb
			if op == rjvSpecOpPop {
				t.stepq[i][b] = specPopMark
			} else {
				t.stepq[i][b] = t.id[nq]
			}
		}
	}
	t.prelude = t.render()
	return t
}

func (t *specTable) ID(q rjvSpecLocal) int { return t.id[q] }

func (t *specTable) Dead() int { return 0 }
func (t *specTable) Done() int { return 1 }

func (t *specTable) name(i int) string {
	if i == specPopMark {
		return "POP"
	}
	q := t.states[i]
	ctl := []string{"Dead", "Done", "Before", "TravArr", "TravObj", "ArrFirst", "ArrValue", "ArrAfter", "ObjFirst", "ObjKey", "ObjColon", "ObjValue", "ObjAfter", "InValue", "InKey"}[q.Ctl]
	lex := []string{"", "Str", "StrEsc", "StrU1", "StrU2", "StrU3", "StrU4", "T1", "T2", "T3", "F1", "F2", "F3", "F4", "N1", "N2", "N3", "NumMinus", "NumZero", "NumInt", "NumDot", "NumFrac", "NumE", "NumESign", "NumExp"}[q.Lex]
	ctx := []string{"top", "arr", "obj"}[q.Ctx]
	s := ctl
	if lex != "" {
		s += "." + lex
	}
	if q.Ctl == rjvSpecInValue || q.Ctl == rjvSpecBefore {
		s += "@" + ctx
	}
	return s
}

// ctxOf: the kind of the innermost open container implied by a local state, or -1 if the
// state says nothing about it (Dead).
func (t *specTable) ctxOf(i int) int {
	q := t.states[i]
	switch q.Ctl {
	case rjvSpecDead:
		return -1
	case rjvSpecDone, rjvSpecTravArr, rjvSpecTravObj:
		return ctxKindTop
	case rjvSpecBefore, rjvSpecInValue:
		return int(q.Ctx)
	case rjvSpecArrFirst, rjvSpecArrValue, rjvSpecArrAfter:
		return ctxKindArr
	default:
		return ctxKindObj
	}
}

func (t *specTable) isFinalNumTop(i int) bool {
	q := t.states[i]
	return rjvSpecIsFinalNumber(q) && q.Ctx == rjvSpecCtxTop
}

func bv8(v int) string { return fmt.Sprintf("#x%02x", v) }

// render the table as nested ites over the state, then over byte ranges.
func (t *specTable) render() string {
	var sb strings.Builder
	renderFn := func(name, sortStr string, val func(i, b int) string, def string) {
		fmt.Fprintf(&sb, "(define-fun %s ((q (_ BitVec 8)) (b (_ BitVec 8))) %s\n", name, sortStr)
		closing := 0
		for i := range t.states {
			// byte ranges with equal value
			type rng struct {
				lo, hi int
				v      string
			}
			var rs []rng
			for b := 0; b < 256; b++ {
				v := val(i, b)
				if len(rs) > 0 && rs[len(rs)-1].v == v {
					rs[len(rs)-1].hi = b
				} else {
					rs = append(rs, rng{b, b, v})
				}
			}
			// most common value as default
			cnt := map[string]int{}
			for _, r := range rs {
				cnt[r.v] += r.hi - r.lo + 1
			}
			var vals []string
			for v := range cnt {
				vals = append(vals, v)
			}
			sort.Slice(vals, func(a, b int) bool {
				if cnt[vals[a]] != cnt[vals[b]] {
					return cnt[vals[a]] > cnt[vals[b]]
				}
				return vals[a] < vals[b]
			})
			d := vals[0]
			if len(rs) == 1 && d == def {
				continue
			}
			fmt.Fprintf(&sb, " (ite (= q %s) ", bv8(i))
			inner := 0
			for _, r := range rs {
				if r.v == d {
					continue
				}
				if r.lo == r.hi {
					fmt.Fprintf(&sb, "(ite (= b %s) %s ", bv8(r.lo), r.v)
				} else {
					fmt.Fprintf(&sb, "(ite (and (bvule %s b) (bvule b %s)) %s ", bv8(r.lo), bv8(r.hi), r.v)
				}
				inner++
			}
			sb.WriteString(d)
			sb.WriteString(strings.Repeat(")", inner))
			sb.WriteString("\n")
			closing++
		}
		sb.WriteString(" " + def)
		sb.WriteString(strings.Repeat(")", closing))
		sb.WriteString(")\n")
	}
	renderFn("spec.stepq", "(_ BitVec 8)", func(i, b int) string { return bv8(t.stepq[i][b]) }, bv8(0))
	renderFn("spec.stepop", "(_ BitVec 8)", func(i, b int) string { return bv8(t.stepop[i][b]) }, bv8(0))
	// context kind of a local state (3: none)
	sb.WriteString("(define-fun spec.ctxof ((q (_ BitVec 8))) (_ BitVec 8)\n")
	nclose := 0
	for i := range t.states {
		k := t.ctxOf(i)
		if k < 0 {
			continue
		}
		fmt.Fprintf(&sb, " (ite (= q %s) %s", bv8(i), bv8(k))
		nclose++
	}
	sb.WriteString(" #x03" + strings.Repeat(")", nclose) + ")\n")
	renderFn("spec.numcont", "Bool", func(i, b int) string {
		q := t.states[i]
		if !rjvSpecIsFinalNumber(q) {
			return "false"
		}
		nq, op, _ := rjvSpecStep(q, byte(b))
		if op == rjvSpecOpNone && nq.Ctl == rjvSpecInValue && nq.Ctx == q.Ctx && nq.Lex >= rjvSpecNumMinus {
			return "true"
		}
		return "false"
	}, "false")
	renderFn("spec.endbefore", "Bool", func(i, b int) string {
		if t.endb[i][b] {
			return "true"
		}
		return "false"
	}, "false")
	return sb.String()
}
