package main

// Solver back ends: persistent z3-new / z3 / cvc5 processes spoken to over pipes in SMT-LIB 2.

import (
	"bufio"
	"fmt"
	"io"
	"math/big"
	"os/exec"
	"strings"
	"sync"
	"sync/atomic"
	"time"
)

type solverKind struct {
	name string
	argv []string
}

var solverKinds = map[string]solverKind{
	"z3-new": {"z3-new", []string{"z3-new", "-in", "-smt2"}},
	"z3":     {"z3", []string{"z3", "-in", "-smt2"}},
	"cvc5":   {"cvc5", []string{"cvc5", "--incremental", "--lang", "smt2", "--produce-models"}},
}

type Solver struct {
	kind  solverKind
	cmd   *exec.Cmd
	in    io.WriteCloser
	out   *bufio.Reader
	lines chan string
	dead  bool
	tmo   int
}

func startSolver(kind string, timeoutMs int) (*Solver, error) {
	k, ok := solverKinds[kind]
	if !ok {
		return nil, fmt.Errorf("unknown solver %s", kind)
	}
	argv := append([]string{}, k.argv...)
	if kind == "cvc5" {
		argv = append(argv, fmt.Sprintf("--tlimit-per=%d", timeoutMs))
	}
	cmd := exec.Command(argv[0], argv[1:]...)
	in, err := cmd.StdinPipe()
	if err != nil {
		return nil, err
	}
	outp, err := cmd.StdoutPipe()
	if err != nil {
		return nil, err
	}
	cmd.Stderr = nil
	if err := cmd.Start(); err != nil {
		return nil, err
	}
	s := &Solver{kind: k, cmd: cmd, in: in, out: bufio.NewReaderSize(outp, 1<<20), lines: make(chan string, 1024), tmo: timeoutMs}
	go func() {
		for {
			l, err := s.out.ReadString('\n')
			if l != "" {
				s.lines <- strings.TrimRight(l, "\r\n")
			}
			if err != nil {
				close(s.lines)
				return
			}
		}
	}()
	if kind == "cvc5" {
		fmt.Fprintf(in, "(set-logic ALL)\n")
	} else {
		fmt.Fprintf(in, "(set-option :timeout %d)\n", timeoutMs)
	}
	// the specification table is defined once per session (outside push/pop)
	io.WriteString(in, specTab().prelude)
	return s, nil
}

func (s *Solver) kill() {
	if s.dead {
		return
	}
	s.dead = true
	s.in.Close()
	s.cmd.Process.Kill()
	go s.cmd.Wait()
}

type Result struct {
	Status string // unsat | sat | unknown | timeout | error
	Solver string
	Secs   float64
	Values map[string]string
	Raw    string
}

// check runs one self-contained query (inside push/pop).
func (s *Solver) check(body string, getValues []string, cancel <-chan struct{}) Result {
	t0 := time.Now()
	var sb strings.Builder
	sb.WriteString("(push 1)\n")
	sb.WriteString(body)
	sb.WriteString("\n(check-sat)\n")
	sb.WriteString("(echo \"@@mid\")\n")
	if len(getValues) > 0 {
		// only evaluated by the solver if sat; errors are ignored by us
		sb.WriteString("(get-value (" + strings.Join(getValues, " ") + "))\n")
	}
	sb.WriteString("(pop 1)\n(echo \"@@done\")\n")
	if _, err := io.WriteString(s.in, sb.String()); err != nil {
		s.kill()
		return Result{Status: "error", Solver: s.kind.name, Raw: err.Error()}
	}
	deadline := time.After(time.Duration(s.tmo)*time.Millisecond + 3*time.Second)
	var pre, post []string
	mid := false
	for {
		select {
		case l, ok := <-s.lines:
			if !ok {
				s.dead = true
				return Result{Status: "error", Solver: s.kind.name, Raw: strings.Join(pre, "\n"), Secs: time.Since(t0).Seconds()}
			}
			l2 := strings.Trim(l, "\"")
			if l2 == "@@mid" {
				mid = true
				continue
			}
			if l2 == "@@done" {
				return s.parse(pre, post, getValues, t0)
			}
			if mid {
				post = append(post, l)
			} else {
				pre = append(pre, l)
			}
		case <-deadline:
			s.kill()
			return Result{Status: "timeout", Solver: s.kind.name, Raw: strings.Join(pre, "\n"), Secs: time.Since(t0).Seconds()}
		case <-cancel:
			s.kill()
			return Result{Status: "cancelled", Solver: s.kind.name, Secs: time.Since(t0).Seconds()}
		}
	}
}

func (s *Solver) parse(pre, post []string, getValues []string, t0 time.Time) Result {
	r := Result{Solver: s.kind.name, Secs: time.Since(t0).Seconds(), Raw: strings.Join(pre, "\n")}
	r.Status = "error"
	for _, l := range pre {
		switch strings.TrimSpace(l) {
		case "unsat":
			r.Status = "unsat"
		case "sat":
			r.Status = "sat"
		case "unknown":
			r.Status = "unknown"
		case "timeout":
			r.Status = "timeout"
		}
	}
	for _, l := range pre {
		if strings.HasPrefix(strings.TrimSpace(l), "(error") {
			r.Status = "error"
			r.Raw = strings.Join(pre, "\n")
		}
	}
	if r.Status == "sat" && len(getValues) > 0 {
		r.Values = parseValues(strings.Join(post, " "), getValues)
	}
	if r.Status == "error" {
		r.Raw += "\n" + strings.Join(post, "\n")
	}
	return r
}

// parseValues parses "((e1 v1) (e2 v2) ...)" positionally.
func parseValues(s string, exprs []string) map[string]string {
	out := map[string]string{}
	toks := sexpTokens(s)
	pos := 0
	var parse func() interface{}
	parse = func() interface{} {
		if pos >= len(toks) {
			return nil
		}
		t := toks[pos]
		pos++
		if t == "(" {
			var l []interface{}
			for pos < len(toks) && toks[pos] != ")" {
				l = append(l, parse())
			}
			pos++
			return l
		}
		return t
	}
	top, _ := parse().([]interface{})
	for i, e := range top {
		pr, ok := e.([]interface{})
		if !ok || len(pr) != 2 || i >= len(exprs) {
			continue
		}
		out[exprs[i]] = sexpString(pr[1])
	}
	return out
}

func sexpString(x interface{}) string {
	switch v := x.(type) {
	case string:
		return v
	case []interface{}:
		var ps []string
		for _, e := range v {
			ps = append(ps, sexpString(e))
		}
		return "(" + strings.Join(ps, " ") + ")"
	}
	return ""
}

func sexpTokens(s string) []string {
	var out []string
	i := 0
	for i < len(s) {
		c := s[i]
		switch {
		case c == '(' || c == ')':
			out = append(out, string(c))
			i++
		case c == ' ' || c == '\t' || c == '\n' || c == '\r':
			i++
		case c == '|':
			j := i + 1
			for j < len(s) && s[j] != '|' {
				j++
			}
			out = append(out, s[i:j+1])
			i = j + 1
		default:
			j := i
			for j < len(s) && !strings.ContainsRune("() \t\r\n", rune(s[j])) {
				j++
			}
			out = append(out, s[i:j])
			i = j
		}
	}
	return out
}

// parseBV turns "#x.." / "#b.." / "true"/"false" into a big.Int.
func parseBV(s string) (*big.Int, bool) {
	switch {
	case strings.HasPrefix(s, "#x"):
		v, ok := new(big.Int).SetString(s[2:], 16)
		return v, ok
	case strings.HasPrefix(s, "#b"):
		v, ok := new(big.Int).SetString(s[2:], 2)
		return v, ok
	case s == "true":
		return big.NewInt(1), true
	case s == "false":
		return big.NewInt(0), true
	case strings.HasPrefix(s, "(_ bv"):
		f := strings.Fields(strings.Trim(s, "()"))
		if len(f) >= 2 {
			v, ok := new(big.Int).SetString(strings.TrimPrefix(f[1], "bv"), 10)
			return v, ok
		}
	}
	return nil, false
}

// ---- pool ----

type Pool struct {
	mu       sync.Mutex
	idle     map[string][]*Solver
	tmo      map[string]int
	stats    map[string]*solverStat
	queries  int64
	sem      chan struct{}
	thorough bool
}

type solverStat struct {
	Queries int     `json:"queries"`
	Unsat   int     `json:"unsat"`
	Sat     int     `json:"sat"`
	Other   int     `json:"other"`
	Secs    float64 `json:"solver_seconds"`
}

func NewPool(workers int) *Pool {
	return &Pool{idle: map[string][]*Solver{}, tmo: map[string]int{}, stats: map[string]*solverStat{}, sem: make(chan struct{}, workers)}
}

func (p *Pool) get(kind string, tmo int) *Solver {
	key := fmt.Sprintf("%s/%d", kind, tmo)
	p.mu.Lock()
	l := p.idle[key]
	if len(l) > 0 {
		s := l[len(l)-1]
		p.idle[key] = l[:len(l)-1]
		p.mu.Unlock()
		return s
	}
	p.mu.Unlock()
	s, err := startSolver(kind, tmo)
	if err != nil {
		return nil
	}
	return s
}

func (p *Pool) put(s *Solver) {
	if s.dead {
		return
	}
	key := fmt.Sprintf("%s/%d", s.kind.name, s.tmo)
	p.mu.Lock()
	p.idle[key] = append(p.idle[key], s)
	p.mu.Unlock()
}

func (p *Pool) Close() {
	p.mu.Lock()
	defer p.mu.Unlock()
	for _, l := range p.idle {
		for _, s := range l {
			s.kill()
		}
	}
	p.idle = map[string][]*Solver{}
}

func (p *Pool) record(r Result) {
	p.mu.Lock()
	st := p.stats[r.Solver]
	if st == nil {
		st = &solverStat{}
		p.stats[r.Solver] = st
	}
	st.Queries++
	st.Secs += r.Secs
	if r.Status == "cancelled" {
		p.mu.Unlock()
		return
	}
	switch r.Status {
	case "unsat":
		st.Unsat++
	case "sat":
		st.Sat++
	default:
		st.Other++
	}
	p.mu.Unlock()
}

// RunOn runs body on one solver kind.
func (p *Pool) RunOn(kind string, tmo int, body string, getValues []string) Result {
	return p.RunOnC(kind, tmo, body, getValues, nil, true)
}

func (p *Pool) RunOnC(kind string, tmo int, body string, getValues []string, cancel <-chan struct{}, useSem bool) Result {
	if useSem {
		p.sem <- struct{}{}
		defer func() { <-p.sem }()
	}
	atomic.AddInt64(&p.queries, 1)
	s := p.get(kind, tmo)
	if s == nil {
		return Result{Status: "error", Solver: kind, Raw: "cannot start solver"}
	}
	r := s.check(body, getValues, cancel)
	if r.Status == "error" && !s.dead {
		// keep the session only if it still answers; simplest is to restart
		s.kill()
	}
	p.put(s)
	p.record(r)
	return r
}

// Decide: z3-new with the quick timeout first; if that is not conclusive, z3-new, z3 and cvc5
// are raced with the slow timeout and the first definite answer wins.
func (p *Pool) Decide(body string, getValues []string, quickMs, slowMs int) Result {
	r := p.RunOn("z3-new", quickMs, body, getValues)
	if r.Status == "unsat" || r.Status == "sat" {
		return r
	}
	first := r
	kinds := []string{"cvc5", "z3", "z3-new"}
	cancel := make(chan struct{})
	results := make(chan Result, len(kinds))
	p.sem <- struct{}{}
	for _, k := range kinds {
		k := k
		go func() { results <- p.RunOnC(k, slowMs, body, getValues, cancel, false) }()
	}
	var best Result
	got := false
	for i := 0; i < len(kinds); i++ {
		r := <-results
		if !got && (r.Status == "unsat" || r.Status == "sat") {
			best, got = r, true
			close(cancel)
		}
	}
	<-p.sem
	if got {
		return best
	}
	if first.Status == "error" {
		return first
	}
	first.Status = "unknown"
	return first
}

// Confirm re-checks an unsat answer on a second solver (thorough tier).
func (p *Pool) Confirm(first Result, body string, slowMs int) (Result, bool) {
	for _, k := range []string{"cvc5", "z3", "z3-new"} {
		if k == first.Solver {
			continue
		}
		r := p.RunOn(k, slowMs, body, nil)
		if r.Status == "unsat" {
			return r, true
		}
		if r.Status == "sat" {
			return r, false
		}
	}
	return first, true // no second opinion available: keep the first, noted in evidence
}
