package main

import (
	"flag"
	"fmt"
	"os"
	"runtime"
	"runtime/pprof"
	"strings"
)

func usage() {
	fmt.Fprintln(os.Stderr, `usage:
  rjv prove [-mode hostile|wellbehaved] [-v] <pkg.Func> ...   prove functions, print ledger
  rjv check <C01..C20> [--tier quick|thorough]                property check (writes evidence)
  rjv dump <Func> ...                                          print SSA
  rjv selftest                                                 must-fail / must-pass corpus`)
	os.Exit(2)
}

func main() {
	if len(os.Args) < 2 {
		usage()
	}
	switch os.Args[1] {
	case "prove":
		cmdProve(os.Args[2:])
	case "check":
		cmdCheck(os.Args[2:])
	case "dump":
		cmdDump(os.Args[2:])
	case "prelude":
		fmt.Print(specTab().prelude)
	case "selftest":
		cmdSelftest(os.Args[2:])
	default:
		usage()
	}
}

func repoDir() string {
	if d := os.Getenv("RJV_REPO"); d != "" {
		return d
	}
	return "/repo"
}

func cmdDump(args []string) {
	eng, err := LoadEngine(repoDir(), 1)
	if err != nil {
		fmt.Fprintln(os.Stderr, err)
		os.Exit(2)
	}
	for _, a := range args {
		if !strings.Contains(a, ".") {
			a = "rjson." + a
		}
		f := eng.lookupFunc(a)
		if f == nil {
			fmt.Fprintln(os.Stderr, "no such function", a)
			continue
		}
		f.WriteTo(os.Stdout)
	}
}

func cmdProve(args []string) {
	fs := flag.NewFlagSet("prove", flag.ExitOnError)
	mode := fs.String("mode", "hostile", "handler mode")
	verbose := fs.Bool("v", false, "verbose")
	all := fs.Bool("all", false, "print every obligation")
	thorough := fs.Bool("thorough", false, "confirm with a second solver")
	prof := fs.String("cpuprofile", "", "write cpu profile")
	simFlag := fs.Bool("sim", false, "enable the spec simulation driver")
	relFlag := fs.Bool("rel", false, "enable the relational (scratch independence) driver")
	allocFlag := fs.Bool("alloc", false, "activate the @alloc clauses")
	fs.Parse(args)
	if *prof != "" {
		f, _ := os.Create(*prof)
		pprof.StartCPUProfile(f)
		defer pprof.StopCPUProfile()
	}
	eng, err := LoadEngine(repoDir(), runtime.NumCPU())
	if err != nil {
		fmt.Fprintln(os.Stderr, err)
		os.Exit(2)
	}
	defer eng.pool.Close()
	bad := 0
	for _, a := range fs.Args() {
		if !strings.Contains(a, ".") {
			a = "rjson." + a
		}
		f := eng.lookupFunc(a)
		if f == nil {
			fmt.Fprintln(os.Stderr, "no such function", a)
			bad++
			continue
		}
		fc := eng.contracts.Funcs[a]
		fp := eng.NewFuncProof(f, fc, ProofOpts{Mode: *mode, QuickMs: 4000, SlowMs: 20000, Thorough: *thorough, Verbose: *verbose, Sim: *simFlag, Rel: *relFlag, Alloc: *allocFlag})
		fp.Run()
		tot, dis := fp.ledger.Counts()
		fmt.Printf("== %s [%s]: %d/%d obligations discharged; blocks=%d cuts=%d paths=%d cands=%d kept=%d rounds=%d queries=%d %.1fs\n",
			a, *mode, dis, tot, fp.stats.Blocks, fp.stats.CutPoints, fp.stats.Paths, fp.stats.Candidates, fp.stats.Kept, fp.stats.HoudiniIters, fp.stats.Queries, fp.stats.Secs)
		for _, u := range fp.stats.Unsupported {
			fmt.Println("   unsupported:", u)
		}
		for _, e := range fp.ledger.Sorted() {
			if e.Status != "discharged" || *all {
				fmt.Printf("   %-10s %s (%d inst, %s) %s\n", e.Status, e.Name, e.Instances, e.Solver, e.Detail)
				for _, m := range e.Model {
					fmt.Println("        ", m)
				}
			}
		}
		if *verbose && fp.sim != nil {
			d := fp.sim.describe()
			fmt.Printf("   sim: %v pairs, K=%v\n", d["inferred_spec_pairs"], fp.sim.K)
			for _, c := range fp.cuts {
				var ns []string
				for tk := range fp.sim.S[c] {
					vals := parseTuple(tk)
					nm := fp.sim.tab.name(int(vals[len(vals)-1]))
					if len(vals) > 1 {
						nm = fmt.Sprintf("(%d,%s)", vals[0], nm)
					}
					ns = append(ns, nm)
				}
				fmt.Printf("   S[%s] = %s\n", c.Label, strings.Join(ns, " "))
			}
		}
		if *verbose {
			for _, c := range fp.cuts {
				var kept []string
				for _, at := range fp.cands[c] {
					if fp.alive[c][at] {
						kept = append(kept, at.Name)
					}
				}
				fmt.Printf("   cut %s: %s\n", c.Label, strings.Join(kept, " ; "))
			}
		}
		if tot != dis {
			bad++
		}
	}
	pprof.StopCPUProfile()
	for k, v := range eng.pool.stats {
		fmt.Printf("solver %s: %d queries, %.1fs total, unsat=%d sat=%d other=%d\n", k, v.Queries, v.Secs, v.Unsat, v.Sat, v.Other)
	}
	if bad > 0 {
		eng.pool.Close()
		os.Exit(1)
	}
}

func init() {
	if os.Getenv("RJV_DEBUG_CONTRACTS") != "" {
		cf, err := parseContracts(repoDir() + "/verif_contracts.go")
		fmt.Println(err)
		for k, f := range cf.Funcs {
			fmt.Println(k, len(f.Requires), len(f.Ensures), len(f.Loops), f.Params, f.Results)
		}
	}
}
