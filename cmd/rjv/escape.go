package main

// A small escape analysis for the ghost allocation counter. go/ssa marks every local whose
// address is passed to a call as Heap; gc's escape analysis keeps such a local on the stack when
// no callee lets the pointer (or a pointer derived from it) outlive the call. This mirrors that
// rule conservatively: a pointer escapes if it is stored anywhere (other than being spilled into
// the callee's own parameter cell), returned, boxed, captured, converted, sent, or passed to a
// function for which the same question has a positive (or unknown) answer.

import (
	"go/token"
	"go/types"
	"sync"

	"golang.org/x/tools/go/ssa"
)

var (
	escMu   sync.Mutex
	escMemo = map[*ssa.Function]map[int]int{} // 0 unknown/in progress, 1 no escape, 2 escapes
)

// allocStaysLocal: the address of the alloc does not outlive the function.
func allocStaysLocal(a *ssa.Alloc) bool {
	escMu.Lock()
	defer escMu.Unlock()
	return !pointerEscapes(a, map[ssa.Value]bool{}, 0)
}

func paramEscapes(f *ssa.Function, k int, depth int) bool {
	if f == nil || len(f.Blocks) == 0 || k >= len(f.Params) || depth > 8 {
		return true
	}
	if m := escMemo[f]; m != nil {
		switch m[k] {
		case 1:
			return false
		case 2:
			return true
		}
	} else {
		escMemo[f] = map[int]int{}
	}
	// optimistic for recursion: assume "does not escape" while computing
	escMemo[f][k] = 1
	res := pointerEscapes(f.Params[k], map[ssa.Value]bool{}, depth)
	if res {
		escMemo[f][k] = 2
	}
	return res
}

// pointerEscapes: v is a pointer (or a slice/derived pointer into the same object).
func pointerEscapes(v ssa.Value, seen map[ssa.Value]bool, depth int) bool {
	if seen[v] {
		return false
	}
	seen[v] = true
	refs := v.Referrers()
	if refs == nil {
		return true
	}
	for _, ref := range *refs {
		switch x := ref.(type) {
		case *ssa.DebugRef:
		case *ssa.FieldAddr:
			if x.X == v && pointerEscapes(x, seen, depth) {
				return true
			}
		case *ssa.IndexAddr:
			if x.X == v && pointerEscapes(x, seen, depth) {
				return true
			}
		case *ssa.Slice:
			if x.X == v && pointerEscapes(x, seen, depth) {
				return true
			}
		case *ssa.UnOp:
			if x.Op != token.MUL {
				return true
			}
			// a load through the pointer: the loaded value is a pointer itself only if the pointee
			// type is a pointer-like cell (parameter spill), handled at the Store case
		case *ssa.Store:
			if x.Addr == v && x.Val != v {
				continue // writing through the pointer
			}
			// the pointer itself is stored: allowed only as the spill of a parameter/local into its
			// own cell, whose loads are then followed
			cell, ok := x.Addr.(*ssa.Alloc)
			if !ok || cell.Heap || cell.Referrers() == nil {
				return true
			}
			for _, r2 := range *cell.Referrers() {
				switch y := r2.(type) {
				case *ssa.Store:
					if y.Addr != cell {
						return true
					}
				case *ssa.UnOp:
					if y.Op != token.MUL || pointerEscapes(y, seen, depth) {
						return true
					}
				case *ssa.DebugRef:
				default:
					return true
				}
			}
		case *ssa.Call:
			if callee := x.Call.StaticCallee(); callee != nil {
				for k, a := range x.Call.Args {
					if a == v && paramEscapes(callee, k, depth+1) {
						return true
					}
				}
				continue
			}
			if b, ok := x.Call.Value.(*ssa.Builtin); ok {
				switch b.Name() {
				case "len", "cap", "copy":
					continue
				}
			}
			return true
		case *ssa.Phi:
			if pointerEscapes(x, seen, depth) {
				return true
			}
		case *ssa.BinOp: // pointer comparison
		case *ssa.If:
		default:
			return true
		}
	}
	return false
}

// allocFreeScan: the function and everything it statically calls inside the module contain no
// instruction that can allocate (used where a contract's "requests no heap bytes" clause is not
// proved path by path: the decimal shifting code of internal/fp). One obligation per function.
func allocFreeScan(eng *Engine, rootKey string) []*LedgerEntry {
	root := eng.lookupFunc(rootKey)
	var out []*LedgerEntry
	if root == nil {
		return []*LedgerEntry{{Name: "alloc-free/" + rootKey + "/function-present", Kind: "ensures", Fn: rootKey, Instances: 1, Status: "failed", Detail: "function not found"}}
	}
	pure := map[string]bool{"math.Float64frombits": true, "math.Float64bits": true, "bits.Mul64": true, "bits.LeadingZeros64": true, "bits.Len64": true, "bits.TrailingZeros64": true}
	seen := map[*ssa.Function]bool{}
	var visit func(f *ssa.Function)
	visit = func(f *ssa.Function) {
		if seen[f] {
			return
		}
		seen[f] = true
		e := &LedgerEntry{Name: "alloc-free/" + calleeKey(f) + "/no-allocating-instruction[C19,C20]", Kind: "ensures", Fn: calleeKey(f), Status: "discharged", Solver: "ssa-scan"}
		bad := func(ins ssa.Instruction, what string) {
			e.Status = "failed"
			e.Detail = what + " at " + eng.prog.Fset.Position(ins.Pos()).String()
		}
		for _, b := range f.Blocks {
			for _, ins := range b.Instrs {
				e.Instances++
				switch x := ins.(type) {
				case *ssa.Alloc:
					if x.Heap && !allocStaysLocal(x) {
						bad(ins, "escaping local")
					}
				case *ssa.MakeSlice, *ssa.MakeMap, *ssa.MakeChan, *ssa.MakeInterface, *ssa.MakeClosure, *ssa.Go, *ssa.Defer:
					bad(ins, "allocating instruction")
				case *ssa.Convert:
					_, fromStr := x.X.Type().Underlying().(*types.Basic)
					_, toSlice := x.Type().Underlying().(*types.Slice)
					_, fromSlice := x.X.Type().Underlying().(*types.Slice)
					tb, toBasic := x.Type().Underlying().(*types.Basic)
					if (fromStr && toSlice) || (fromSlice && toBasic && tb.Kind() == types.String) {
						bad(ins, "string conversion")
					}
					if fb, ok := x.X.Type().Underlying().(*types.Basic); ok && toBasic && tb.Kind() == types.String && fb.Info()&types.IsInteger != 0 {
						bad(ins, "rune to string conversion")
					}
				case *ssa.BinOp:
					if tb, ok := x.Type().Underlying().(*types.Basic); ok && tb.Kind() == types.String && x.Op == token.ADD {
						bad(ins, "string concatenation")
					}
				case *ssa.Call:
					if bi, ok := x.Call.Value.(*ssa.Builtin); ok {
						if bi.Name() == "append" {
							bad(ins, "append")
						}
						continue
					}
					callee := x.Call.StaticCallee()
					if callee == nil {
						bad(ins, "dynamic call")
						continue
					}
					if callee.Pkg == f.Pkg {
						visit(callee)
						continue
					}
					if !pure[calleeKey(callee)] {
						bad(ins, "call to "+calleeKey(callee))
					}
				}
			}
		}
		out = append(out, e)
	}
	visit(root)
	return out
}
