package main

// Evaluation of assertion-language expressions (Go syntax + imp/iff/forall/old/spec functions)
// over symbolic values.

import (
	"fmt"
	"go/ast"
	"go/constant"
	"go/token"
	"go/types"
	"math/big"
	"strconv"
	"strings"

	"golang.org/x/tools/go/ssa"
)

type TV struct {
	V       Value
	Signed  bool
	Untyped bool
}

// QFact is a bounded universally quantified hypothesis: Guard && Lo <= bv < Hi ==> Body.
type QFact struct {
	Guard  *Term
	BV     *Term
	Lo, Hi *Term
	Body   *Term
	Name   string
	// Extra instantiation terms supplied by the creator.
	Seeds []*Term
	At    int // length of the path condition when the fact was added
	// OnlySelect restricts instantiation to indices at which SelectRoot is read.
	OnlySelect bool
	SelectRoot *Term
}

type Env struct {
	ex     *Exec
	st     *State
	vars   map[string]TV
	lookup func(name string) (TV, bool)
	old    *Env
	lets   map[string]*LetDef
	prove  bool // true: quantifiers in positive position are goals (skolemised)
	qsink  *[]*QFact
	hsink  *[]*Term // ground hypotheses produced by spec functions
	errs   []string
	depth  int
	pkg    *types.Package // package whose scope resolves unqualified names (callee contracts); nil: the function's own
}

func (e *Env) scopePkg() *types.Package {
	if e.pkg != nil {
		return e.pkg
	}
	return e.ex.fn.Pkg.Pkg
}

func (e *Env) child() *Env {
	n := *e
	n.vars = map[string]TV{}
	for k, v := range e.vars {
		n.vars[k] = v
	}
	return &n
}

func (e *Env) fail(format string, a ...interface{}) TV {
	msg := fmt.Sprintf(format, a...)
	e.errs = append(e.errs, msg)
	panic(evalError(msg))
}

type evalError string

func (e *Env) addHyp(t *Term) {
	if e.hsink != nil {
		*e.hsink = append(*e.hsink, t)
	}
}

func (e *Env) addQ(q *QFact) {
	if e.st != nil {
		q.At = len(e.st.pc)
	}
	if e.qsink != nil {
		*e.qsink = append(*e.qsink, q)
	}
}

// EvalBool evaluates a clause to a Bool term.
func (e *Env) EvalBool(x ast.Expr) (res *Term, err error) {
	defer func() {
		if r := recover(); r != nil {
			if ee, ok := r.(evalError); ok {
				err = fmt.Errorf("%s", string(ee))
				return
			}
			panic(r)
		}
	}()
	return e.boolExpr(x, True), nil
}

func (e *Env) EvalTerm(x ast.Expr) (res *Term, err error) {
	defer func() {
		if r := recover(); r != nil {
			if ee, ok := r.(evalError); ok {
				err = fmt.Errorf("%s", string(ee))
				return
			}
			panic(r)
		}
	}()
	tv := e.eval(x)
	t, ok := tv.V.(*Term)
	if !ok {
		return nil, fmt.Errorf("not a scalar")
	}
	return t, nil
}

// boolExpr handles the logical skeleton so that forall can be treated by polarity.
// guard is the conjunction of enclosing implication antecedents.
func (e *Env) boolExpr(x ast.Expr, guard *Term) *Term {
	switch n := x.(type) {
	case *ast.ParenExpr:
		return e.boolExpr(n.X, guard)
	case *ast.BinaryExpr:
		if n.Op == token.LAND {
			return And(e.boolExpr(n.X, guard), e.boolExpr(n.Y, guard))
		}
	case *ast.CallExpr:
		if id, ok := n.Fun.(*ast.Ident); ok {
			switch id.Name {
			case "imp":
				a := e.term(n.Args[0])
				b := e.boolExpr(n.Args[1], And(guard, a))
				return Implies(a, b)
			case "forall":
				return e.forall(n, guard)
			}
		}
	}
	return e.term(x)
}

func (e *Env) forall(n *ast.CallExpr, guard *Term) *Term {
	if len(n.Args) != 4 {
		e.fail("forall(i, lo, hi, body) expects 4 arguments")
	}
	id, ok := n.Args[0].(*ast.Ident)
	if !ok {
		e.fail("forall: first argument must be an identifier")
	}
	lo := e.term64(n.Args[1])
	hi := e.term64(n.Args[2])
	bv := Fresh("q."+id.Name, BV(64))
	c := e.child()
	c.vars[id.Name] = TV{V: bv, Signed: true}
	if e.prove {
		// skolemise: prove body for an arbitrary index in range
		rng := And(Sle(lo, bv), Slt(bv, hi))
		body := c.boolExpr(n.Args[3], And(guard, rng))
		return Implies(rng, body)
	}
	// hypothesis: register a quantified fact. Nested spec-function hypotheses inside the body
	// are collected as part of the body.
	var hs []*Term
	c.hsink = &hs
	body := c.boolExpr(n.Args[3], guard)
	body = And(append(hs, body)...)
	e.addQ(&QFact{Guard: guard, BV: bv, Lo: lo, Hi: hi, Body: body, Name: id.Name})
	return True
}

func (e *Env) term(x ast.Expr) *Term {
	tv := e.eval(x)
	t, ok := tv.V.(*Term)
	if !ok {
		e.fail("expected scalar, got %T in %s", tv.V, exprString(x))
	}
	return t
}

func (e *Env) term64(x ast.Expr) *Term {
	tv := e.eval(x)
	t, ok := tv.V.(*Term)
	if !ok {
		e.fail("expected integer, got %T in %s", tv.V, exprString(x))
	}
	if t.Sort.Kind != KBV {
		e.fail("expected integer in %s", exprString(x))
	}
	return Resize(t, 64, tv.Signed)
}

func exprString(x ast.Expr) string {
	return types.ExprString(x)
}

func (e *Env) unify(a, b TV, x ast.Expr) (*Term, *Term, bool) {
	at, ok1 := a.V.(*Term)
	bt, ok2 := b.V.(*Term)
	if !ok1 || !ok2 {
		e.fail("operands must be scalars in %s (%T, %T)", exprString(x), a.V, b.V)
	}
	signed := a.Signed
	switch {
	case a.Untyped && !b.Untyped:
		signed = b.Signed
		if at.Sort.Kind == KBV && bt.Sort.Kind == KBV {
			at = Resize(at, bt.Sort.W, true)
		}
	case b.Untyped && !a.Untyped:
		signed = a.Signed
		if at.Sort.Kind == KBV && bt.Sort.Kind == KBV {
			bt = Resize(bt, at.Sort.W, true)
		}
	case a.Untyped && b.Untyped:
		signed = true
	default:
		signed = a.Signed && b.Signed
	}
	if at.Sort != bt.Sort {
		e.fail("sort mismatch in %s: %s vs %s", exprString(x), at.Sort, bt.Sort)
	}
	return at, bt, signed
}

func (e *Env) eval(x ast.Expr) TV {
	switch n := x.(type) {
	case *ast.ParenExpr:
		return e.eval(n.X)
	case *ast.BasicLit:
		switch n.Kind {
		case token.INT:
			v, ok := new(big.Int).SetString(n.Value, 0)
			if !ok {
				e.fail("bad int literal %s", n.Value)
			}
			// untyped constants are kept 128 bits wide and truncated where they meet a typed operand
			return TV{V: BVC(128, v), Signed: true, Untyped: true}
		case token.CHAR:
			r, _, _, err := strconv.UnquoteChar(n.Value[1:len(n.Value)-1], '\'')
			if err != nil {
				e.fail("bad char literal %s", n.Value)
			}
			return TV{V: BVI(128, int64(r)), Signed: true, Untyped: true}
		}
		e.fail("unsupported literal %s", n.Value)
	case *ast.Ident:
		return e.ident(n.Name)
	case *ast.UnaryExpr:
		switch n.Op {
		case token.NOT:
			return TV{V: Not(e.term(n.X))}
		case token.SUB:
			v := e.eval(n.X)
			return TV{V: Neg(v.V.(*Term)), Signed: v.Signed, Untyped: v.Untyped}
		case token.XOR:
			v := e.eval(n.X)
			return TV{V: BVNot(v.V.(*Term)), Signed: v.Signed, Untyped: v.Untyped}
		}
		e.fail("unsupported unary %s", n.Op)
	case *ast.StarExpr:
		v := e.eval(n.X)
		pv, ok := v.V.(*PtrV)
		if !ok {
			e.fail("deref of non-pointer in %s", exprString(x))
		}
		return e.typed(e.ex.load(e.st, pv.P), pv.T)
	case *ast.SelectorExpr:
		// pkg.Name or value.field
		if id, ok := n.X.(*ast.Ident); ok {
			if tv, ok := e.qualified(id.Name, n.Sel.Name); ok {
				return tv
			}
		}
		v := e.eval(n.X)
		return e.field(v, n.Sel.Name, x)
	case *ast.IndexExpr:
		a := e.eval(n.X)
		idx := e.term64(n.Index)
		switch s := a.V.(type) {
		case *SliceV:
			arr := e.ex.load(e.st, Place{Root: s.Reg}).(*ArrayV)
			return e.typed(Select(arr.Arr, Add(s.Off, idx)), s.ElemT)
		case *StringV:
			arr := e.ex.load(e.st, Place{Root: s.Reg}).(*ArrayV)
			return TV{V: Select(arr.Arr, Add(s.Off, idx))}
		case *ArrayV:
			return e.typed(Select(s.Arr, idx), s.ElemT)
		}
		e.fail("index of %T in %s", a.V, exprString(x))
	case *ast.SliceExpr:
		a := e.eval(n.X)
		s, ok := a.V.(*SliceV)
		if !ok {
			e.fail("slice of %T", a.V)
		}
		lo, hi := I64(0), s.Len
		if n.Low != nil {
			lo = e.term64(n.Low)
		}
		if n.High != nil {
			hi = e.term64(n.High)
		}
		return TV{V: &SliceV{Reg: s.Reg, Off: Add(s.Off, lo), Len: Sub(hi, lo), Cap: Sub(s.Cap, lo), ElemT: s.ElemT}}
	case *ast.BinaryExpr:
		return e.binary(n)
	case *ast.CallExpr:
		return e.call(n)
	}
	return e.fail("unsupported expression %s (%T)", exprString(x), x)
}

func (e *Env) typed(v Value, t types.Type) TV {
	if t == nil {
		return TV{V: v}
	}
	return TV{V: v, Signed: isSigned(t)}
}

func (e *Env) field(v TV, name string, x ast.Expr) TV {
	switch s := v.V.(type) {
	case *PtrV:
		st, ok := s.T.Underlying().(*types.Struct)
		if !ok {
			e.fail("field of pointer to non-struct in %s", exprString(x))
		}
		inner := e.ex.load(e.st, s.P)
		sv, ok := inner.(*StructV)
		if !ok {
			e.fail("field of %T in %s", inner, exprString(x))
		}
		for i := 0; i < st.NumFields(); i++ {
			if st.Field(i).Name() == name {
				return e.typed(sv.Fields[i], st.Field(i).Type())
			}
		}
	case *StructV:
		for i := 0; i < s.T.NumFields(); i++ {
			if s.T.Field(i).Name() == name {
				return e.typed(s.Fields[i], s.T.Field(i).Type())
			}
		}
	}
	return e.fail("no field %s in %s", name, exprString(x))
}

func (e *Env) ident(name string) TV {
	if tv, ok := e.vars[name]; ok {
		return tv
	}
	switch name {
	case "true":
		return TV{V: True}
	case "false":
		return TV{V: False}
	case "nil":
		return TV{V: NilErr, Untyped: true}
	}
	if strings.HasPrefix(name, "ghost_") {
		if e.st != nil {
			if g, ok := e.st.ghost[name[6:]]; ok {
				return TV{V: g, Signed: true}
			}
		}
		switch name[6:] {
		case "rspos":
			return TV{V: I64(-1), Signed: true}
		case "rsb":
			return TV{V: BVI(8, 0)}
		case "alloc":
			return TV{V: I64(0), Signed: true}
		}
		return TV{V: NilErr}
	}
	if ld, ok := e.lets[name]; ok && len(ld.Params) == 0 {
		if e.depth > 50 {
			e.fail("let recursion")
		}
		c := e.child()
		c.depth = e.depth + 1
		return c.eval(ld.Expr)
	}
	if e.lookup != nil {
		if tv, ok := e.lookup(name); ok {
			return tv
		}
	}
	if tv, ok := e.pkgIdent(e.scopePkg(), name); ok {
		return tv
	}
	return e.fail("unknown identifier %s", name)
}

func (e *Env) qualified(pkg, name string) (TV, bool) {
	for _, imp := range e.scopePkg().Imports() {
		if imp.Name() == pkg {
			return e.pkgIdent(imp, name)
		}
	}
	if pkg == "io" && name == "EOF" {
		return TV{V: globalErr("io.EOF")}, true
	}
	return TV{}, false
}

func globalErr(name string) *Term { return Var("glob."+name, ErrSort) }

func (e *Env) pkgIdent(pkg *types.Package, name string) (TV, bool) {
	obj := pkg.Scope().Lookup(name)
	if obj == nil {
		return TV{}, false
	}
	switch o := obj.(type) {
	case *types.Const:
		s := sortOf(o.Type())
		if s == nil {
			return TV{}, false
		}
		if s.Kind == KBool {
			return TV{V: BoolC(constant.BoolVal(o.Val()))}, true
		}
		iv := constant.ToInt(o.Val())
		v, ok := new(big.Int).SetString(iv.ExactString(), 10)
		if !ok {
			return TV{}, false
		}
		untyped := false
		if b, ok := o.Type().(*types.Basic); ok && b.Info()&types.IsUntyped != 0 {
			untyped = true
		}
		if untyped {
			return TV{V: BVC(128, v), Signed: true, Untyped: true}, true
		}
		return TV{V: BVC(s.W, v), Signed: isSigned(o.Type()), Untyped: false}, true
	case *types.Var:
		if isErrorType(o.Type()) {
			n := name
			if pkg.Name() != "rjson" {
				n = pkg.Name() + "." + name
			}
			return TV{V: globalErr(n)}, true
		}
		// package-level table
		if g, ok := e.ex.fn.Pkg.Members[name].(interface{ Type() types.Type }); ok {
			_ = g
		}
		if gv := e.ex.eng.globalByName(pkg, name); gv != nil {
			return e.typed(e.ex.eng.globalValue(e.ex, e.st, gv), o.Type()), true
		}
	}
	return TV{}, false
}

func (e *Env) binary(n *ast.BinaryExpr) TV {
	switch n.Op {
	case token.LAND:
		return TV{V: And(e.term(n.X), e.term(n.Y))}
	case token.LOR:
		return TV{V: Or(e.term(n.X), e.term(n.Y))}
	}
	a, b := e.eval(n.X), e.eval(n.Y)
	// error / nil comparisons
	if n.Op == token.EQL || n.Op == token.NEQ {
		if r, ok := e.refEq(a, b); ok {
			if n.Op == token.NEQ {
				r = Not(r)
			}
			return TV{V: r}
		}
	}
	x, y, signed := e.unify(a, b, n)
	ut := a.Untyped && b.Untyped
	switch n.Op {
	case token.ADD:
		return TV{V: Add(x, y), Signed: signed, Untyped: ut}
	case token.SUB:
		return TV{V: Sub(x, y), Signed: signed, Untyped: ut}
	case token.MUL:
		return TV{V: Mul(x, y), Signed: signed, Untyped: ut}
	case token.QUO:
		if signed {
			return TV{V: BVOp("bvsdiv", x, y), Signed: signed, Untyped: ut}
		}
		return TV{V: BVOp("bvudiv", x, y), Signed: signed, Untyped: ut}
	case token.REM:
		if signed {
			return TV{V: BVOp("bvsrem", x, y), Signed: signed, Untyped: ut}
		}
		return TV{V: BVOp("bvurem", x, y), Signed: signed, Untyped: ut}
	case token.AND:
		return TV{V: BVOp("bvand", x, y), Signed: signed, Untyped: ut}
	case token.OR:
		return TV{V: BVOp("bvor", x, y), Signed: signed, Untyped: ut}
	case token.XOR:
		return TV{V: BVOp("bvxor", x, y), Signed: signed, Untyped: ut}
	case token.SHL:
		return TV{V: BVOp("bvshl", x, y), Signed: signed, Untyped: ut}
	case token.SHR:
		if signed {
			return TV{V: BVOp("bvashr", x, y), Signed: signed, Untyped: ut}
		}
		return TV{V: BVOp("bvlshr", x, y), Signed: signed, Untyped: ut}
	case token.EQL:
		return TV{V: Eq(x, y)}
	case token.NEQ:
		return TV{V: Not(Eq(x, y))}
	case token.LSS:
		if signed {
			return TV{V: Slt(x, y)}
		}
		return TV{V: Ult(x, y)}
	case token.LEQ:
		if signed {
			return TV{V: Sle(x, y)}
		}
		return TV{V: Ule(x, y)}
	case token.GTR:
		if signed {
			return TV{V: Slt(y, x)}
		}
		return TV{V: Ult(y, x)}
	case token.GEQ:
		if signed {
			return TV{V: Sle(y, x)}
		}
		return TV{V: Ule(y, x)}
	}
	return e.fail("unsupported operator %s", n.Op)
}

// refEq handles comparisons involving nil, errors, pointers.
func (e *Env) refEq(a, b TV) (*Term, bool) {
	isNilLit := func(t TV) bool { return t.Untyped && t.V == Value(NilErr) }
	switch av := a.V.(type) {
	case *PtrV:
		if isNilLit(b) {
			return av.Nil, true
		}
	case *Term:
		if isNilLit(b) && av.Sort == IfaceSort {
			return Eq(av, NilIface), true
		}
	case *SliceV:
		if isNilLit(b) {
			return And(Eq(av.Len, I64(0)), Eq(av.Cap, I64(0))), true
		}
	}
	if isNilLit(a) && !isNilLit(b) {
		return e.refEq(b, a)
	}
	if as, ok := a.V.(*StringV); ok {
		if bs, ok := b.V.(*StringV); ok {
			if as.Reg == bs.Reg {
				return And(Eq(as.Off, bs.Off), Eq(as.Len, bs.Len)), true
			}
			return Fresh("streq", BoolSort), true
		}
	}
	return nil, false
}

func (e *Env) call(n *ast.CallExpr) TV {
	id, ok := n.Fun.(*ast.Ident)
	if !ok {
		// qualified spec functions are not supported
		return e.fail("unsupported call %s", exprString(n))
	}
	switch id.Name {
	case "imp":
		return TV{V: Implies(e.term(n.Args[0]), e.term(n.Args[1]))}
	case "iff":
		return TV{V: Iff(e.term(n.Args[0]), e.term(n.Args[1]))}
	case "ite":
		c := e.term(n.Args[0])
		a, b := e.eval(n.Args[1]), e.eval(n.Args[2])
		x, y, s := e.unify(a, b, n)
		return TV{V: Ite(c, x, y), Signed: s, Untyped: a.Untyped && b.Untyped}
	case "forall":
		return e.fail("forall is only allowed as a top-level conjunct or as the consequent of an implication")
	case "old":
		if e.old == nil {
			return e.fail("old() not available here")
		}
		return e.old.eval(n.Args[0])
	case "len":
		v := e.eval(n.Args[0])
		switch s := v.V.(type) {
		case *SliceV:
			return TV{V: s.Len, Signed: true}
		case *StringV:
			return TV{V: s.Len, Signed: true}
		case *ArrayV:
			return TV{V: I64(s.Len), Signed: true}
		}
		return e.fail("len of %T", v.V)
	case "cap":
		v := e.eval(n.Args[0])
		if s, ok := v.V.(*SliceV); ok {
			return TV{V: s.Cap, Signed: true}
		}
		return e.fail("cap of %T", v.V)
	case "int", "int64":
		v := e.eval(n.Args[0])
		return TV{V: Resize(v.V.(*Term), 64, v.Signed), Signed: true}
	case "uint64", "uint":
		v := e.eval(n.Args[0])
		return TV{V: Resize(v.V.(*Term), 64, v.Signed), Signed: false}
	case "int32", "rune":
		v := e.eval(n.Args[0])
		return TV{V: Resize(v.V.(*Term), 32, v.Signed), Signed: true}
	case "uint32":
		v := e.eval(n.Args[0])
		return TV{V: Resize(v.V.(*Term), 32, v.Signed), Signed: false}
	case "byte", "uint8":
		v := e.eval(n.Args[0])
		return TV{V: Resize(v.V.(*Term), 8, v.Signed), Signed: false}
	case "u128":
		v := e.eval(n.Args[0])
		return TV{V: Resize(v.V.(*Term), 128, false), Signed: false}
	case "s128":
		v := e.eval(n.Args[0])
		return TV{V: Resize(v.V.(*Term), 128, true), Signed: true}
	}
	if id.Name == "pure" {
		// pure(F, j, args...): the j-th result of the pure function F (contract directive `pure`) on args
		fid, ok := n.Args[0].(*ast.Ident)
		jl, ok2 := n.Args[1].(*ast.BasicLit)
		if !ok || !ok2 || len(n.Args) < 2 {
			return e.fail("pure(F, j, args...) expects a function name and a result index")
		}
		j, _ := strconv.Atoi(jl.Value)
		key := e.scopePkg().Name() + "." + fid.Name
		f := e.ex.eng.lookupFunc(key)
		if f == nil || j >= f.Signature.Results().Len() {
			return e.fail("pure: unknown function or result %s#%d", fid.Name, j)
		}
		rt := f.Signature.Results().At(j).Type()
		so := sortOf(rt)
		if so == nil {
			return e.fail("pure: result %d of %s is not a scalar", j, fid.Name)
		}
		var flat []*Term
		for _, a := range n.Args[2:] {
			v := e.eval(a)
			if t, isT := v.V.(*Term); isT && k2param(f, len(flat)) != nil {
				_ = t
			}
			e.ex.flattenEq(e.st, coerceArg(v, f, len(n.Args[2:]), a, n.Args[2:]), &flat)
		}
		return TV{V: App("pure."+key+fmt.Sprintf(".res%d", j), so, flat...), Signed: isSigned(rt)}
	}
	switch id.Name {
	case "rok", "rval", "rp":
		// result functions of a deterministic reader: rok(F, data), rval(F, data), rp(F, data)
		fid, ok := n.Args[0].(*ast.Ident)
		if !ok || len(n.Args) != 2 {
			return e.fail("%s(F, data) expects a function name and a slice", id.Name)
		}
		sv, ok := e.eval(n.Args[1]).V.(*SliceV)
		if !ok {
			return e.fail("%s: second argument must be a slice", id.Name)
		}
		arr := e.ex.load(e.st, Place{Root: sv.Reg}).(*ArrayV).Arr
		switch id.Name {
		case "rok":
			return TV{V: App("rok."+fid.Name, BoolSort, arr, sv.Off, sv.Len)}
		case "rp":
			return TV{V: App("rp."+fid.Name, BV(64), arr, sv.Off, sv.Len), Signed: true}
		default:
			f := e.ex.eng.lookupFunc(e.scopePkg().Name() + "." + fid.Name)
			if f == nil || f.Signature.Results().Len() == 0 {
				return e.fail("rval: unknown function %s", fid.Name)
			}
			rt := f.Signature.Results().At(0).Type()
			so := sortOf(rt)
			if so == nil {
				return e.fail("rval: %s does not return a scalar", fid.Name)
			}
			return TV{V: App("rval."+fid.Name, so, arr, sv.Off, sv.Len), Signed: isSigned(rt)}
		}
	}
	if ld, ok := e.lets[id.Name]; ok && len(ld.Params) == len(n.Args) && len(ld.Params) > 0 {
		if e.depth > 50 {
			e.fail("let recursion")
		}
		c := e.child()
		c.depth = e.depth + 1
		for i, p := range ld.Params {
			c.vars[p] = e.eval(n.Args[i])
		}
		return c.eval(ld.Expr)
	}
	if sf, ok := specFns[id.Name]; ok {
		var args []TV
		for _, a := range n.Args {
			if bl, ok := a.(*ast.BasicLit); ok && bl.Kind == token.STRING {
				args = append(args, TV{})
				continue
			}
			args = append(args, e.eval(a))
		}
		return sf(e, args, n)
	}
	return e.fail("unknown function %s", id.Name)
}

type specFn func(e *Env, args []TV, n *ast.CallExpr) TV

var specFns = map[string]specFn{}

func argTerm(e *Env, a TV, n ast.Expr) *Term {
	t, ok := a.V.(*Term)
	if !ok {
		e.fail("scalar argument expected in %s", exprString(n))
	}
	return t
}

func argByte(e *Env, a TV, n ast.Expr) *Term {
	t := argTerm(e, a, n)
	if t.Sort.Kind != KBV {
		e.fail("byte argument expected in %s", exprString(n))
	}
	if t.Sort.W == 8 {
		return t
	}
	return Extract(7, 0, t)
}

func byteIn(b *Term, vals ...int) *Term {
	var ds []*Term
	for _, v := range vals {
		ds = append(ds, Eq(b, BVI(8, int64(v))))
	}
	return Or(ds...)
}

func byteRange(b *Term, lo, hi int) *Term {
	return And(Ule(BVI(8, int64(lo)), b), Ule(b, BVI(8, int64(hi))))
}

func init() {
	specFns["ws"] = func(e *Env, a []TV, n *ast.CallExpr) TV {
		return TV{V: byteIn(argByte(e, a[0], n), ' ', '\t', '\r', '\n')}
	}
	specFns["storedconst"] = func(e *Env, a []TV, n *ast.CallExpr) TV {
		x := Resize(argTerm(e, a[0], n), 64, true)
		var ds []*Term
		for _, k := range e.ex.storedConsts() {
			ds = append(ds, Eq(x, I64(k)))
		}
		return TV{V: Or(ds...)}
	}
	specFns["retmain"] = func(e *Env, a []TV, n *ast.CallExpr) TV {
		x := Resize(argTerm(e, a[0], n), 64, true)
		var ds []*Term
		for _, k := range e.ex.storedConsts() {
			if e.ex.retMain[k] {
				ds = append(ds, Eq(x, I64(k)))
			}
		}
		return TV{V: Or(ds...)}
	}
	specFns["retsub"] = func(e *Env, a []TV, n *ast.CallExpr) TV {
		x := Resize(argTerm(e, a[0], n), 64, true)
		var ds []*Term
		for _, k := range e.ex.storedConsts() {
			if e.ex.retSub[k] {
				ds = append(ds, Eq(x, I64(k)))
			}
		}
		return TV{V: Or(ds...)}
	}
	specFns["tokclass"] = func(e *Env, a []TV, n *ast.CallExpr) TV {
		// RFC 8259 token classes, numbered as the TokenType constants are declared
		b := argByte(e, a[0], n)
		res := BVI(8, 0)
		set := func(cond *Term, v int64) { res = Ite(cond, BVI(8, v), res) }
		set(byteIn(b, 'n'), 1)
		set(byteIn(b, '"'), 2)
		set(Or(byteRange(b, '0', '9'), byteIn(b, '-')), 3)
		set(byteIn(b, 't'), 4)
		set(byteIn(b, 'f'), 5)
		set(byteIn(b, '{'), 6)
		set(byteIn(b, '}'), 7)
		set(byteIn(b, '['), 8)
		set(byteIn(b, ']'), 9)
		set(byteIn(b, ','), 10)
		set(byteIn(b, ':'), 11)
		return TV{V: res}
	}
	specFns["digit"] = func(e *Env, a []TV, n *ast.CallExpr) TV {
		return TV{V: byteRange(argByte(e, a[0], n), '0', '9')}
	}
	specFns["d19"] = func(e *Env, a []TV, n *ast.CallExpr) TV {
		return TV{V: byteRange(argByte(e, a[0], n), '1', '9')}
	}
	specFns["hexdigit"] = func(e *Env, a []TV, n *ast.CallExpr) TV {
		b := argByte(e, a[0], n)
		return TV{V: Or(byteRange(b, '0', '9'), byteRange(b, 'a', 'f'), byteRange(b, 'A', 'F'))}
	}
}

func (e *Env) errString() string { return strings.Join(e.errs, "; ") }

func k2param(f *ssa.Function, k int) *ssa.Parameter { return nil }

// coerceArg: a scalar argument of pure(...) takes the width of the corresponding parameter.
func coerceArg(v TV, f *ssa.Function, nargs int, a ast.Expr, all []ast.Expr) Value {
	t, ok := v.V.(*Term)
	if !ok {
		return v.V
	}
	idx := -1
	for k := range all {
		if all[k] == a {
			idx = k
		}
	}
	if idx >= 0 && idx < len(f.Params) {
		if so := sortOf(f.Params[idx].Type()); so != nil && so.Kind == KBV && t.Sort.Kind == KBV && so.W != t.Sort.W {
			return Resize(t, so.W, v.Signed)
		}
	}
	return t
}
