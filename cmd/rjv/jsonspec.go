package main

// The master JSON transducer (DESIGN.md Appendix A), written from RFC 8259 and the property
// statements, not from the .rl files. This file is self-contained (standard library only): it is
// compiled into rjv (where it is enumerated into the SMT step table) and copied verbatim into
// generated replay tests (where it is the oracle).
//
// All identifiers start with rjvSpec to avoid clashes when the file is dropped into package rjson.

type rjvSpecCtx uint8

const (
	rjvSpecCtxTop rjvSpecCtx = iota // no enclosing container
	rjvSpecCtxArr
	rjvSpecCtxObj
)

// control part of the local state
const (
	rjvSpecDead     = iota // rejected
	rjvSpecDone            // the top-level value has ended (absorbing)
	rjvSpecBefore          // before a value (leading whitespace); the context says where
	rjvSpecTravArr         // traversal entry: whitespace, then `null` or `[`
	rjvSpecTravObj         // traversal entry: whitespace, then `null` or `{`
	rjvSpecArrFirst        // after `[`
	rjvSpecArrValue        // after `,` in an array
	rjvSpecArrAfter        // after a value in an array
	rjvSpecObjFirst        // after `{`
	rjvSpecObjKey          // after `,` in an object
	rjvSpecObjColon        // after a key
	rjvSpecObjValue        // after `:`
	rjvSpecObjAfter        // after a member value
	rjvSpecInValue         // inside a scalar token that is a value; lex says where, ctx says in what
	rjvSpecInKey           // inside a key string
)

// lexical part
const (
	rjvSpecLexNone = iota
	rjvSpecStr
	rjvSpecStrEsc
	rjvSpecStrU1
	rjvSpecStrU2
	rjvSpecStrU3
	rjvSpecStrU4
	rjvSpecT1
	rjvSpecT2
	rjvSpecT3
	rjvSpecF1
	rjvSpecF2
	rjvSpecF3
	rjvSpecF4
	rjvSpecN1
	rjvSpecN2
	rjvSpecN3
	rjvSpecNumMinus
	rjvSpecNumZero
	rjvSpecNumInt
	rjvSpecNumDot
	rjvSpecNumFrac
	rjvSpecNumE
	rjvSpecNumESign
	rjvSpecNumExp
)

// rjvSpecLocal is the finite part of a configuration.
type rjvSpecLocal struct {
	Ctl uint8
	Lex uint8
	Ctx rjvSpecCtx // meaningful for Before and InValue: the kind of the enclosing container
}

const (
	rjvSpecOpNone = iota
	rjvSpecOpPushArr
	rjvSpecOpPushObj
	rjvSpecOpPop
)

func rjvSpecIsWS(b byte) bool    { return b == ' ' || b == '\t' || b == '\r' || b == '\n' }
func rjvSpecIsDigit(b byte) bool { return b >= '0' && b <= '9' }
func rjvSpecIsHex(b byte) bool {
	return rjvSpecIsDigit(b) || b >= 'a' && b <= 'f' || b >= 'A' && b <= 'F'
}

func rjvSpecDeadState() rjvSpecLocal { return rjvSpecLocal{Ctl: rjvSpecDead} }

// after a complete value in context ctx
func rjvSpecAfterValue(ctx rjvSpecCtx) rjvSpecLocal {
	switch ctx {
	case rjvSpecCtxArr:
		return rjvSpecLocal{Ctl: rjvSpecArrAfter}
	case rjvSpecCtxObj:
		return rjvSpecLocal{Ctl: rjvSpecObjAfter}
	}
	return rjvSpecLocal{Ctl: rjvSpecDone}
}

// begin a value with first byte b in context ctx
func rjvSpecBegin(b byte, ctx rjvSpecCtx) (rjvSpecLocal, int) {
	in := func(lex uint8) (rjvSpecLocal, int) {
		return rjvSpecLocal{Ctl: rjvSpecInValue, Lex: lex, Ctx: ctx}, rjvSpecOpNone
	}
	switch {
	case b == '"':
		return in(rjvSpecStr)
	case b == 't':
		return in(rjvSpecT1)
	case b == 'f':
		return in(rjvSpecF1)
	case b == 'n':
		return in(rjvSpecN1)
	case b == '-':
		return in(rjvSpecNumMinus)
	case b == '0':
		return in(rjvSpecNumZero)
	case b >= '1' && b <= '9':
		return in(rjvSpecNumInt)
	case b == '[':
		return rjvSpecLocal{Ctl: rjvSpecArrFirst}, rjvSpecOpPushArr
	case b == '{':
		return rjvSpecLocal{Ctl: rjvSpecObjFirst}, rjvSpecOpPushObj
	}
	return rjvSpecDeadState(), rjvSpecOpNone
}

// rjvSpecStep is the local step. The result of a pop is not known locally (it depends on the
// enclosing container); op == rjvSpecOpPop tells the caller to resolve it with rjvSpecAfterValue
// of the new innermost context. endBefore reports that the top-level value (a number) ended
// before b, i.e. b is not part of it.
func rjvSpecStep(q rjvSpecLocal, b byte) (nq rjvSpecLocal, op int, endBefore bool) {
	dead := rjvSpecDeadState()
	switch q.Ctl {
	case rjvSpecDead:
		return dead, rjvSpecOpNone, false
	case rjvSpecDone:
		return q, rjvSpecOpNone, false
	case rjvSpecBefore:
		if rjvSpecIsWS(b) {
			return q, rjvSpecOpNone, false
		}
		n, o := rjvSpecBegin(b, q.Ctx)
		return n, o, false
	case rjvSpecTravArr, rjvSpecTravObj:
		switch {
		case rjvSpecIsWS(b):
			return q, rjvSpecOpNone, false
		case b == 'n':
			return rjvSpecLocal{Ctl: rjvSpecInValue, Lex: rjvSpecN1, Ctx: rjvSpecCtxTop}, rjvSpecOpNone, false
		case b == '[' && q.Ctl == rjvSpecTravArr:
			return rjvSpecLocal{Ctl: rjvSpecArrFirst}, rjvSpecOpPushArr, false
		case b == '{' && q.Ctl == rjvSpecTravObj:
			return rjvSpecLocal{Ctl: rjvSpecObjFirst}, rjvSpecOpPushObj, false
		}
		return dead, rjvSpecOpNone, false
	case rjvSpecArrFirst, rjvSpecArrValue:
		if rjvSpecIsWS(b) {
			return q, rjvSpecOpNone, false
		}
		if b == ']' && q.Ctl == rjvSpecArrFirst {
			return dead, rjvSpecOpPop, false
		}
		n, o := rjvSpecBegin(b, rjvSpecCtxArr)
		return n, o, false
	case rjvSpecArrAfter:
		switch {
		case rjvSpecIsWS(b):
			return q, rjvSpecOpNone, false
		case b == ',':
			return rjvSpecLocal{Ctl: rjvSpecArrValue}, rjvSpecOpNone, false
		case b == ']':
			return dead, rjvSpecOpPop, false
		}
		return dead, rjvSpecOpNone, false
	case rjvSpecObjFirst, rjvSpecObjKey:
		switch {
		case rjvSpecIsWS(b):
			return q, rjvSpecOpNone, false
		case b == '"':
			return rjvSpecLocal{Ctl: rjvSpecInKey, Lex: rjvSpecStr}, rjvSpecOpNone, false
		case b == '}' && q.Ctl == rjvSpecObjFirst:
			return dead, rjvSpecOpPop, false
		}
		return dead, rjvSpecOpNone, false
	case rjvSpecObjColon:
		switch {
		case rjvSpecIsWS(b):
			return q, rjvSpecOpNone, false
		case b == ':':
			return rjvSpecLocal{Ctl: rjvSpecObjValue}, rjvSpecOpNone, false
		}
		return dead, rjvSpecOpNone, false
	case rjvSpecObjValue:
		if rjvSpecIsWS(b) {
			return q, rjvSpecOpNone, false
		}
		n, o := rjvSpecBegin(b, rjvSpecCtxObj)
		return n, o, false
	case rjvSpecObjAfter:
		switch {
		case rjvSpecIsWS(b):
			return q, rjvSpecOpNone, false
		case b == ',':
			return rjvSpecLocal{Ctl: rjvSpecObjKey}, rjvSpecOpNone, false
		case b == '}':
			return dead, rjvSpecOpPop, false
		}
		return dead, rjvSpecOpNone, false
	}
	// inside a token
	tokenEnd := func() rjvSpecLocal {
		if q.Ctl == rjvSpecInKey {
			return rjvSpecLocal{Ctl: rjvSpecObjColon}
		}
		return rjvSpecAfterValue(q.Ctx)
	}
	stay := func(lex uint8) (rjvSpecLocal, int, bool) {
		return rjvSpecLocal{Ctl: q.Ctl, Lex: lex, Ctx: q.Ctx}, rjvSpecOpNone, false
	}
	lit := func(want byte, next uint8, last bool) (rjvSpecLocal, int, bool) {
		if b != want {
			return dead, rjvSpecOpNone, false
		}
		if last {
			return tokenEnd(), rjvSpecOpNone, false
		}
		return stay(next)
	}
	switch q.Lex {
	case rjvSpecStr:
		switch {
		case b == '"':
			return tokenEnd(), rjvSpecOpNone, false
		case b == '\\':
			return stay(rjvSpecStrEsc)
		case b < 0x20:
			return dead, rjvSpecOpNone, false
		}
		return stay(rjvSpecStr)
	case rjvSpecStrEsc:
		switch b {
		case '"', '\\', '/', 'b', 'f', 'n', 'r', 't':
			return stay(rjvSpecStr)
		case 'u':
			return stay(rjvSpecStrU1)
		}
		return dead, rjvSpecOpNone, false
	case rjvSpecStrU1, rjvSpecStrU2, rjvSpecStrU3, rjvSpecStrU4:
		if !rjvSpecIsHex(b) {
			return dead, rjvSpecOpNone, false
		}
		if q.Lex == rjvSpecStrU4 {
			return stay(rjvSpecStr)
		}
		return stay(q.Lex + 1)
	case rjvSpecT1:
		return lit('r', rjvSpecT2, false)
	case rjvSpecT2:
		return lit('u', rjvSpecT3, false)
	case rjvSpecT3:
		return lit('e', 0, true)
	case rjvSpecF1:
		return lit('a', rjvSpecF2, false)
	case rjvSpecF2:
		return lit('l', rjvSpecF3, false)
	case rjvSpecF3:
		return lit('s', rjvSpecF4, false)
	case rjvSpecF4:
		return lit('e', 0, true)
	case rjvSpecN1:
		return lit('u', rjvSpecN2, false)
	case rjvSpecN2:
		return lit('l', rjvSpecN3, false)
	case rjvSpecN3:
		return lit('l', 0, true)
	case rjvSpecNumMinus:
		switch {
		case b == '0':
			return stay(rjvSpecNumZero)
		case b >= '1' && b <= '9':
			return stay(rjvSpecNumInt)
		}
		return dead, rjvSpecOpNone, false
	case rjvSpecNumDot:
		if rjvSpecIsDigit(b) {
			return stay(rjvSpecNumFrac)
		}
		return dead, rjvSpecOpNone, false
	case rjvSpecNumE:
		switch {
		case b == '+' || b == '-':
			return stay(rjvSpecNumESign)
		case rjvSpecIsDigit(b):
			return stay(rjvSpecNumExp)
		}
		return dead, rjvSpecOpNone, false
	case rjvSpecNumESign:
		if rjvSpecIsDigit(b) {
			return stay(rjvSpecNumExp)
		}
		return dead, rjvSpecOpNone, false
	case rjvSpecNumZero, rjvSpecNumInt, rjvSpecNumFrac, rjvSpecNumExp:
		// maximal munch, then one byte of look-ahead
		switch {
		case rjvSpecIsDigit(b) && q.Lex != rjvSpecNumZero:
			return stay(q.Lex)
		case b == '.' && (q.Lex == rjvSpecNumZero || q.Lex == rjvSpecNumInt):
			return stay(rjvSpecNumDot)
		case (b == 'e' || b == 'E') && q.Lex != rjvSpecNumExp:
			return stay(rjvSpecNumE)
		}
		// the number ended before b; b is then taken by the state after the value
		after := rjvSpecAfterValue(q.Ctx)
		if after.Ctl == rjvSpecDone {
			return after, rjvSpecOpNone, true
		}
		n, o, _ := rjvSpecStep(after, b)
		return n, o, false
	}
	return dead, rjvSpecOpNone, false
}

func rjvSpecIsFinalNumber(q rjvSpecLocal) bool {
	return q.Ctl == rjvSpecInValue && (q.Lex == rjvSpecNumZero || q.Lex == rjvSpecNumInt || q.Lex == rjvSpecNumFrac || q.Lex == rjvSpecNumExp)
}

// rjvSpecRun runs the transducer over data from the given entry state with a nesting limit
// (limit < 0: none). It returns whether the input starts with a complete value and where it ends.
func rjvSpecRun(data []byte, entry uint8, limit int) (ok bool, end int) {
	q := rjvSpecLocal{Ctl: entry, Ctx: rjvSpecCtxTop}
	var frames []rjvSpecCtx
	for k := 0; k < len(data); k++ {
		nq, op, endBefore := rjvSpecStep(q, data[k])
		switch op {
		case rjvSpecOpPushArr, rjvSpecOpPushObj:
			if limit >= 0 && len(frames) == limit {
				return false, k
			}
			if op == rjvSpecOpPushArr {
				frames = append(frames, rjvSpecCtxArr)
			} else {
				frames = append(frames, rjvSpecCtxObj)
			}
		case rjvSpecOpPop:
			if len(frames) == 0 {
				return false, k
			}
			frames = frames[:len(frames)-1]
			ctx := rjvSpecCtxTop
			if len(frames) > 0 {
				ctx = frames[len(frames)-1]
			}
			nq = rjvSpecAfterValue(ctx)
		}
		if nq.Ctl == rjvSpecDead {
			return false, k
		}
		if nq.Ctl == rjvSpecDone {
			if endBefore {
				return true, k
			}
			return true, k + 1
		}
		q = nq
	}
	if len(frames) == 0 && rjvSpecIsFinalNumber(q) && q.Ctx == rjvSpecCtxTop {
		return true, len(data)
	}
	return false, len(data)
}

// rjvSpecValid: one value, optionally surrounded by whitespace, nesting <= 10000.
func rjvSpecValid(data []byte) bool {
	ok, end := rjvSpecRun(data, rjvSpecBefore, 10000)
	if !ok {
		return false
	}
	for _, b := range data[end:] {
		if !rjvSpecIsWS(b) {
			return false
		}
	}
	return true
}

// rjvSpecDecodeString: the content of a string token (the bytes between its quotes) decoded per
// RFC 8259 section 7: unescaped bytes are copied verbatim (even when they are not valid UTF-8),
// the two-character escapes give their byte, \uXXXX gives the UTF-8 encoding of the code point,
// a high surrogate escape directly followed by a low surrogate escape gives the combined code
// point, any other surrogate escape gives U+FFFD. ok is false when the content is malformed.
func rjvSpecDecodeString(content []byte) (out []byte, ok bool) {
	hexv := func(b byte) int {
		switch {
		case b >= '0' && b <= '9':
			return int(b - '0')
		case b >= 'a' && b <= 'f':
			return int(b-'a') + 10
		case b >= 'A' && b <= 'F':
			return int(b-'A') + 10
		}
		return -1
	}
	u4 := func(i int) int {
		if i+6 > len(content) || content[i] != '\\' || content[i+1] != 'u' {
			return -1
		}
		v := 0
		for k := 2; k < 6; k++ {
			h := hexv(content[i+k])
			if h < 0 {
				return -1
			}
			v = v<<4 | h
		}
		return v
	}
	enc := func(r int) {
		switch {
		case r < 0x80:
			out = append(out, byte(r))
		case r < 0x800:
			out = append(out, byte(0xC0|r>>6), byte(0x80|r&0x3F))
		case r < 0x10000:
			out = append(out, byte(0xE0|r>>12), byte(0x80|(r>>6)&0x3F), byte(0x80|r&0x3F))
		default:
			out = append(out, byte(0xF0|r>>18), byte(0x80|(r>>12)&0x3F), byte(0x80|(r>>6)&0x3F), byte(0x80|r&0x3F))
		}
	}
	out = []byte{}
	for i := 0; i < len(content); {
		b := content[i]
		switch {
		case b == '"' || b < 0x20:
			return nil, false
		case b != '\\':
			out = append(out, b)
			i++
		default:
			if i+1 >= len(content) {
				return nil, false
			}
			switch content[i+1] {
			case '"', '\\', '/':
				out = append(out, content[i+1])
				i += 2
			case 'b':
				out = append(out, 8)
				i += 2
			case 'f':
				out = append(out, 12)
				i += 2
			case 'n':
				out = append(out, 10)
				i += 2
			case 'r':
				out = append(out, 13)
				i += 2
			case 't':
				out = append(out, 9)
				i += 2
			case 'u':
				r := u4(i)
				if r < 0 {
					return nil, false
				}
				if r >= 0xD800 && r < 0xDC00 {
					if r2 := u4(i + 6); r2 >= 0xDC00 && r2 < 0xE000 {
						enc(0x10000 + (r-0xD800)<<10 + (r2 - 0xDC00))
						i += 12
						continue
					}
				}
				if r >= 0xD800 && r < 0xE000 {
					r = 0xFFFD
				}
				enc(r)
				i += 6
			default:
				return nil, false
			}
		}
	}
	return out, true
}
