package main

// Cut points and path enumeration (symbolic execution between cut points).

import (
	"fmt"
	"go/token"
	"go/types"
	"sort"

	"golang.org/x/tools/go/ssa"
)

type Cut struct {
	Block   *ssa.BasicBlock
	Label   string
	LoopOrd int // >0 for hand-written loops
	Index   int
}

type PathEnd struct {
	Kind    string // cut | return | panic | abort
	From    *Cut   // nil = function entry
	To      *Cut
	St      *State
	Start   *State
	Results []Value
	Pos     token.Pos
}

func blockPos(b *ssa.BasicBlock) token.Pos {
	for _, ins := range b.Instrs {
		if p := ins.Pos(); p.IsValid() {
			return p
		}
	}
	return token.NoPos
}

// findCuts chooses cut points: labelled blocks matching the contract's patterns, then the
// targets of DFS back edges in what remains (loop heads), except loops marked `unroll`.
func (ex *Exec) findCuts() []*Cut {
	fn := ex.fn
	isCut := map[*ssa.BasicBlock]bool{}
	var cuts []*Cut
	if ex.fc != nil {
		for _, b := range fn.Blocks {
			for _, pat := range ex.fc.Cuts {
				if b.Comment != "" && matchLabel(pat, b.Comment) && !isCut[b] {
					isCut[b] = true
					cuts = append(cuts, &Cut{Block: b, Label: b.Comment})
				}
			}
		}
	}
	// loop heads among the rest: back-edge targets of a DFS over the graph without edges into
	// label cuts, rooted at the entry block and at every label cut.
	color := map[*ssa.BasicBlock]int{}
	var heads []*ssa.BasicBlock
	headSet := map[*ssa.BasicBlock]bool{}
	type frame struct {
		b *ssa.BasicBlock
		i int
	}
	var roots []*ssa.BasicBlock
	if len(fn.Blocks) > 0 {
		roots = append(roots, fn.Blocks[0])
	}
	for _, c := range cuts {
		roots = append(roots, c.Block)
	}
	for _, root := range roots {
		if color[root] != 0 {
			continue
		}
		stack := []frame{{root, 0}}
		color[root] = 1
		for len(stack) > 0 {
			f := &stack[len(stack)-1]
			if f.i < len(f.b.Succs) {
				s := f.b.Succs[f.i]
				f.i++
				if isCut[s] {
					continue
				}
				switch color[s] {
				case 0:
					color[s] = 1
					stack = append(stack, frame{s, 0})
				case 1:
					if !headSet[s] {
						headSet[s] = true
						heads = append(heads, s)
					}
				}
			} else {
				color[f.b] = 2
				stack = stack[:len(stack)-1]
			}
		}
	}
	sort.Slice(heads, func(i, j int) bool {
		pi, pj := blockPos(heads[i]), blockPos(heads[j])
		if pi != pj {
			return pi < pj
		}
		return heads[i].Index < heads[j].Index
	})
	ord := 0
	for _, h := range heads {
		ord++
		if ex.fc != nil {
			if lc := ex.fc.Loops[ord]; lc != nil && lc.Unroll {
				continue
			}
		}
		if !isCut[h] {
			isCut[h] = true
			lbl := h.Comment
			if lbl == "" {
				lbl = "loop"
			}
			cuts = append(cuts, &Cut{Block: h, Label: fmt.Sprintf("loop#%d", ord), LoopOrd: ord})
		}
	}
	for i, c := range cuts {
		c.Index = i
	}
	ex.cutAt = isCut
	return cuts
}

// cellNames maps source variable names to their Alloc cells (first declaration wins; later
// ones are reachable as name#2, name#3 ...).
func cellNames(fn *ssa.Function) map[string]*ssa.Alloc {
	m := map[string]*ssa.Alloc{}
	cnt := map[string]int{}
	for _, b := range fn.Blocks {
		for _, ins := range b.Instrs {
			if a, ok := ins.(*ssa.Alloc); ok && a.Comment != "" {
				cnt[a.Comment]++
				if cnt[a.Comment] == 1 {
					m[a.Comment] = a
				} else {
					m[fmt.Sprintf("%s#%d", a.Comment, cnt[a.Comment])] = a
				}
			}
		}
	}
	return m
}

// storesOutsideEntry reports which Alloc cells are stored to (or have their address escape)
// anywhere but block 0.
func mutableCells(fn *ssa.Function) map[*ssa.Alloc]bool {
	mut := map[*ssa.Alloc]bool{}
	for _, b := range fn.Blocks {
		for _, ins := range b.Instrs {
			switch x := ins.(type) {
			case *ssa.Alloc:
				if b.Index != 0 {
					mut[x] = true
				}
			case *ssa.Store:
				if a, ok := x.Addr.(*ssa.Alloc); ok {
					if b.Index != 0 {
						mut[a] = true
					}
				} else {
					// store through a derived pointer (field/index of a local)
					if root := rootAlloc(x.Addr); root != nil && b.Index != 0 {
						mut[root] = true
					}
				}
				// address stored somewhere: escapes
				if a, ok := x.Val.(*ssa.Alloc); ok {
					mut[a] = true
				}
			case *ssa.Call:
				for _, arg := range x.Call.Args {
					if root := rootAlloc(arg); root != nil {
						mut[root] = true
					}
				}
			case *ssa.MakeClosure:
				for _, bnd := range x.Bindings {
					if root := rootAlloc(bnd); root != nil {
						mut[root] = true
					}
				}
			}
		}
	}
	if len(fn.Blocks) > 0 && len(fn.Blocks[0].Preds) > 0 {
		for _, ins := range fn.Blocks[0].Instrs {
			if a, ok := ins.(*ssa.Alloc); ok {
				mut[a] = true
			}
		}
	}
	return mut
}

func rootAlloc(v ssa.Value) *ssa.Alloc {
	for {
		switch x := v.(type) {
		case *ssa.Alloc:
			return x
		case *ssa.FieldAddr:
			v = x.X
		case *ssa.IndexAddr:
			v = x.X
		default:
			return nil
		}
	}
}

// entryState builds the symbolic state at function entry: fresh parameters, `requires` assumed.
func (ex *Exec) entryState() *State {
	st := &State{store: map[interface{}]Value{}, regs: map[ssa.Value]Value{}, ghost: map[string]*Term{}}
	ex.params = map[string]Value{}
	for _, p := range ex.fn.Params {
		kind := "param"
		if ex.fc != nil && ex.fc.Input[p.Name()] {
			kind = "input"
		}
		v := ex.freshValue(st, p.Name(), p.Type(), kind)
		ex.params[p.Name()] = v
	}
	st.galloc = I64(0)
	st.ghost["rspos"] = I64(-1)
	st.ghost["rsb"] = BVI(8, 0)
	st.ghost["alloc"] = I64(0)
	ex.entryHeap = st
	if ex.fc != nil {
		for _, c := range ex.fc.Requires {
			if !ex.clauseActive(c) {
				continue
			}
			env := ex.paramEnv(st, false)
			t, err := env.EvalBool(c.Expr)
			if err != nil {
				ex.unsup = append(ex.unsup, fmt.Sprintf("requires %q: %v", c.Text, err))
				continue
			}
			st.assume(t)
		}
	}
	return st
}

// paramEnv: environment over the function's parameters (entry values).
func (ex *Exec) paramEnv(st *State, prove bool) *Env {
	vars := map[string]TV{}
	for _, p := range ex.fn.Params {
		vars[p.Name()] = TV{V: ex.params[p.Name()], Signed: isSigned(p.Type())}
	}
	env := &Env{ex: ex, st: st, vars: vars, prove: prove}
	if ex.fc != nil {
		env.lets = letMap(ex.fc)
	}
	env.hsink = &st.pc
	env.qsink = &st.qfacts
	return env
}

// cellEnv: environment over the current values of the function's local cells (for invariants).
func (ex *Exec) cellEnv(st *State, prove bool) *Env {
	names := ex.cells
	env := &Env{ex: ex, st: st, vars: map[string]TV{}, prove: prove}
	if ex.fc != nil {
		env.lets = letMap(ex.fc)
	}
	env.lookup = func(name string) (TV, bool) {
		a, ok := names[name]
		if !ok {
			return TV{}, false
		}
		v, ok := st.store[a]
		if !ok {
			return TV{}, false
		}
		return TV{V: v, Signed: isSigned(a.Type().(*types.Pointer).Elem())}, true
	}
	// entry values of parameters
	oe := ex.paramEnv(st, prove)
	env.old = oe
	env.hsink = &st.pc
	env.qsink = &st.qfacts
	return env
}

// cutState builds the state at a cut point: facts about immutable terms are kept, every
// mutable cell and every non-input region is havocked.
func (ex *Exec) cutState(base *State, cut *Cut) *State {
	st := base.clone()
	st.obls = nil
	st.events = nil
	st.trace = nil
	st.prev = nil
	st.defers = nil
	tag := cut.Label
	st.ghost["herr"] = ex.fresh("ghost_herr@"+tag, ErrSort)
	st.ghost["rspos"] = ex.fresh("ghost_rspos@"+tag, BV(64))
	st.ghost["rsb"] = ex.fresh("ghost_rsb@"+tag, BV(8))
	ga := ex.fresh("ghost_alloc@"+tag, BV(64))
	st.assume(And(Sle(I64(0), ga), Sle(ga, I64(1<<58))))
	st.ghost["alloc"] = ga
	// regions: non-input contents are unknown
	for root := range st.store {
		if r, ok := root.(*Region); ok {
			if !r.Input && r.Kind != "string" && r.Kind != "nil" && r.Kind != "view" {
				st.store[r] = &ArrayV{Arr: ex.fresh(r.Name+"@"+tag, ArraySort(BV(64), r.Elem))}
			}
		}
		if o, ok := root.(*Object); ok {
			st.store[o] = ex.freshValue(st, o.Name+"@"+tag, o.T, "cut")
		}
	}
	for _, a := range ex.allocs {
		if !ex.mutable[a] {
			if _, ok := st.store[a]; ok {
				continue
			}
		}
		et := a.Type().(*types.Pointer).Elem()
		name := a.Comment
		if name == "" {
			name = a.Name()
		}
		st.store[a] = ex.freshValue(st, name+"@"+tag, et, "cut")
		st.regs[a] = &PtrV{Nil: False, P: Place{Root: a}, T: et}
	}
	// registers do not survive (they are re-created as unconstrained live-ins on demand),
	// except the Alloc pointers and entry-block registers, which are immutable.
	for k := range st.regs {
		if _, ok := k.(*ssa.Alloc); ok {
			continue
		}
		if ins, ok := k.(ssa.Instruction); ok && ins.Block() != nil && ins.Block().Index == 0 && base == ex.entryFinal {
			continue
		}
		delete(st.regs, k)
	}
	return st
}

const maxBlockVisits = 40

// explore enumerates all paths from (st, b) to the next cut point or function exit.
func (ex *Exec) explore(st *State, b *ssa.BasicBlock, from *Cut, cuts map[*ssa.BasicBlock]*Cut, start *State, first bool, emit func(*PathEnd)) {
	if st.dead {
		return
	}
	if ex.maxPaths > 0 && ex.npaths > ex.maxPaths {
		return
	}
	if !first {
		if c, ok := cuts[b]; ok {
			ex.npaths++
			emit(&PathEnd{Kind: "cut", From: from, To: c, St: st, Start: start})
			return
		}
	}
	visits := 0
	for _, t := range st.trace {
		if t == b.Index {
			visits++
		}
	}
	if visits > maxBlockVisits {
		ex.unsupported(st, fmt.Sprintf("unbounded unrolling at block %d (%s)", b.Index, b.Comment), blockPos(b))
		ex.npaths++
		emit(&PathEnd{Kind: "abort", From: from, St: st, Start: start})
		return
	}
	st.trace = append(st.trace, b.Index)
	states := []*State{st}
	n := len(b.Instrs)
	for _, ins := range b.Instrs[:n-1] {
		var next []*State
		for _, s := range states {
			if s.dead {
				continue
			}
			next = append(next, ex.execInstr(s, ins)...)
		}
		states = next
	}
	for _, s := range states {
		if s.dead {
			continue
		}
		switch t := b.Instrs[n-1].(type) {
		case *ssa.Jump:
			s.prev = b
			ex.explore(s, b.Succs[0], from, cuts, start, false, emit)
		case *ssa.If:
			c := ex.term(s, t.Cond)
			if c == True {
				s.prev = b
				ex.explore(s, b.Succs[0], from, cuts, start, false, emit)
			} else if c == False {
				s.prev = b
				ex.explore(s, b.Succs[1], from, cuts, start, false, emit)
			} else {
				y := s.clone()
				y.assume(c)
				y.branches = append(y.branches, c)
				y.prev = b
				ex.explore(y, b.Succs[0], from, cuts, start, false, emit)
				s.assume(Not(c))
				s.branches = append(s.branches, Not(c))
				s.prev = b
				ex.explore(s, b.Succs[1], from, cuts, start, false, emit)
			}
		case *ssa.Return:
			var rs []Value
			for _, r := range t.Results {
				rs = append(rs, ex.val(s, r))
			}
			ex.npaths++
			emit(&PathEnd{Kind: "return", From: from, St: s, Start: start, Results: rs, Pos: t.Pos()})
		case *ssa.Panic:
			ex.npaths++
			emit(&PathEnd{Kind: "panic", From: from, St: s, Start: start, Pos: t.Pos()})
		default:
			ex.unsupported(s, fmt.Sprintf("terminator %T", t), t.Pos())
		}
	}
}

// storedConsts: the integer constants this function stores into elements of []int slices
// (for the generated machines: the return states pushed on the call stack).
func (ex *Exec) storedConsts() []int64 {
	if ex.sconsts != nil {
		return ex.sconsts
	}
	seen := map[int64]bool{}
	for _, b := range ex.fn.Blocks {
		for _, ins := range b.Instrs {
			st, ok := ins.(*ssa.Store)
			if !ok {
				continue
			}
			ia, ok := st.Addr.(*ssa.IndexAddr)
			if !ok {
				continue
			}
			sl, ok := ia.X.Type().Underlying().(*types.Slice)
			if !ok || !types.Identical(sl.Elem(), types.Typ[types.Int]) {
				continue
			}
			c, ok := st.Val.(*ssa.Const)
			if !ok || c.Value == nil {
				ex.unsup = append(ex.unsup, "non-constant store into []int")
				continue
			}
			seen[c.Int64()] = true
		}
	}
	ex.sconsts = []int64{}
	for k := range seen {
		ex.sconsts = append(ex.sconsts, k)
	}
	sort.Slice(ex.sconsts, func(i, j int) bool { return ex.sconsts[i] < ex.sconsts[j] })
	return ex.sconsts
}
