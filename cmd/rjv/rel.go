package main

// Relational (2-safety) driver: the observable outcome of a function does not depend on the
// scratch parameters (length, capacity and contents of the stack slice a Buffer carries).
//
// Two runs A and B start at the same cut point with every cell equal except the scratch slice;
// the relational invariant is  forall i < top: stackA[i] == stackB[i]. For every path of run A
// there must be a path of run B with the same end point and the same handler calls (coverage),
// and for every such pair the end states must again be related (equal cells, equal results,
// equal handler-call arguments). Handler results are the same symbols in both runs (named by
// call site and ordinal), i.e. the handler is assumed to be a deterministic function of its call
// index and arguments.

import (
	"fmt"
	"go/types"
	"strings"
	"sync"

	"golang.org/x/tools/go/ssa"
)

func (fp *FuncProof) scratchNames() []string {
	var out []string
	if fp.fc == nil {
		return nil
	}
	for n := range fp.fc.Scratch {
		out = append(out, n)
	}
	return out
}

// relStartB: state B at a cut (or at entry when c == nil): state A with the scratch slices replaced.
func (fp *FuncProof) relStartB(c *Cut, a *State) *State {
	ex := fp.ex
	b := a.clone()
	b.obls, b.events, b.trace = nil, nil, nil
	for _, name := range fp.scratchNames() {
		if c == nil {
			// entry: the parameter itself differs
			for _, p := range fp.fn.Params {
				if p.Name() == name {
					if b.paramOverride == nil {
						b.paramOverride = map[string]Value{}
					}
					b.paramOverride[name] = ex.freshValue(b, name+"$B", p.Type(), "param")
				}
			}
			continue
		}
		al := ex.cells[name]
		if al == nil {
			continue
		}
		et := al.Type().(*types.Pointer).Elem()
		b.store[al] = ex.freshValue(b, name+"$B@"+c.Label, et, "cut")
	}
	return b
}

func (fp *FuncProof) relInvariant(a, b *State) ([]*Term, []*QFact) {
	ex := fp.ex
	var hs []*Term
	var qs []*QFact
	for _, name := range fp.scratchNames() {
		al := ex.cells[name]
		if al == nil {
			continue
		}
		sa, ok1 := a.store[al].(*SliceV)
		sb, ok2 := b.store[al].(*SliceV)
		if !ok1 || !ok2 {
			continue
		}
		topA, okT := a.store[ex.cells["top"]].(*Term)
		if !okT {
			continue
		}
		arrA := a.loadArr(ex, sa.Reg)
		arrB := b.loadArr(ex, sb.Reg)
		bv := Fresh("q.r", BV(64))
		qs = append(qs, &QFact{Guard: True, BV: bv, Lo: I64(0), Hi: topA, Body: Eq(Select(arrA, Add(sa.Off, bv)), Select(arrB, Add(sb.Off, bv))), Name: "rel-stack", Seeds: []*Term{Sub(topA, I64(1))}})
	}
	return hs, qs
}

// relGoal: end states related.
func (fp *FuncProof) relGoal(pa, pb *PathEnd) *Term {
	ex := fp.ex
	var gs []*Term
	scratch := map[string]bool{}
	for _, n := range fp.scratchNames() {
		scratch[n] = true
	}
	eqVal := func(x, y Value) *Term {
		switch xv := x.(type) {
		case *Term:
			if yv, ok := y.(*Term); ok && xv.Sort == yv.Sort {
				return Eq(xv, yv)
			}
			return False
		case *SliceV:
			yv, ok := y.(*SliceV)
			if !ok {
				return False
			}
			if xv.Reg == yv.Reg {
				return And(Eq(xv.Off, yv.Off), Eq(xv.Len, yv.Len))
			}
			return And(Eq(xv.Off, yv.Off), Eq(xv.Len, yv.Len), BoolC(xv.Reg.Input == yv.Reg.Input))
		case *OpaqueV, *PtrV:
			return True
		}
		return True
	}
	switch pa.Kind {
	case "cut":
		for name, al := range ex.cells {
			if scratch[name] || !ex.mutable[al] {
				continue
			}
			gs = append(gs, eqVal(pa.St.store[al], pb.St.store[al]))
		}
		// ghost handler error
		ga, gb := pa.St.ghost["herr"], pb.St.ghost["herr"]
		if ga != nil && gb != nil {
			gs = append(gs, Eq(ga, gb))
		}
		// stack relation at the end
		for name := range scratch {
			al := ex.cells[name]
			if al == nil {
				continue
			}
			sa, ok1 := pa.St.store[al].(*SliceV)
			sb, ok2 := pb.St.store[al].(*SliceV)
			top, ok3 := pa.St.store[ex.cells["top"]].(*Term)
			if !ok1 || !ok2 || !ok3 {
				continue
			}
			i := Fresh("sk.r", BV(64))
			arrA := pa.St.loadArr(ex, sa.Reg)
			arrB := pb.St.loadArr(ex, sb.Reg)
			gs = append(gs, Implies(And(Sle(I64(0), i), Slt(i, top)), Eq(Select(arrA, Add(sa.Off, i)), Select(arrB, Add(sb.Off, i)))))
		}
	case "return":
		rs := fp.fn.Signature.Results()
		for j := 0; j < rs.Len() && j < len(pa.Results); j++ {
			if sl, ok := rs.At(j).Type().Underlying().(*types.Slice); ok && types.Identical(sl.Elem(), types.Typ[types.Int]) {
				continue // the returned stack itself is scratch
			}
			gs = append(gs, eqVal(pa.Results[j], pb.Results[j]))
		}
	}
	// handler calls: same arguments
	ia, ib := invokes(pa), invokes(pb)
	if len(ia) != len(ib) {
		return False
	}
	for k := range ia {
		for j := range ia[k].Args {
			if j < len(ib[k].Args) {
				gs = append(gs, eqVal(ia[k].Args[j], ib[k].Args[j]))
			}
		}
	}
	return And(gs...)
}

func invokes(pe *PathEnd) []*Event {
	var out []*Event
	for _, ev := range pe.St.events {
		if ev.Kind == "invoke" {
			out = append(out, ev)
		}
	}
	return out
}

// traceSig: the block trace without the blocks that (re)allocate scratch memory, so that a run
// that grows its stack and one that does not have the same signature.
func (fp *FuncProof) traceSig(pe *PathEnd) string {
	if fp.growBlocks == nil {
		fp.growBlocks = map[int]bool{}
		for _, b := range fp.fn.Blocks {
			for _, ins := range b.Instrs {
				switch x := ins.(type) {
				case *ssa.MakeSlice:
					fp.growBlocks[b.Index] = true
				case *ssa.Call:
					if bi, ok := x.Call.Value.(*ssa.Builtin); ok && bi.Name() == "append" {
						fp.growBlocks[b.Index] = true
					}
				}
			}
		}
	}
	var sb strings.Builder
	for _, t := range pe.St.trace {
		if !fp.growBlocks[t] {
			fmt.Fprintf(&sb, "%d,", t)
		}
	}
	return sb.String()
}

func sameShape(pa, pb *PathEnd) bool {
	if pa.Kind != pb.Kind {
		return false
	}
	if pa.Kind == "cut" && pa.To != pb.To {
		return false
	}
	if pa.Kind == "return" && pa.Pos != pb.Pos {
		return false
	}
	ia, ib := invokes(pa), invokes(pb)
	if len(ia) != len(ib) {
		return false
	}
	for k := range ia {
		if ia[k].Site != ib[k].Site {
			return false
		}
	}
	return true
}

// RelCheck adds the relational obligations to the ledger. Must run after Houdini (it uses the
// unary invariants as hypotheses for both runs).
func (fp *FuncProof) RelCheck() {
	if len(fp.scratchNames()) == 0 {
		return
	}
	ex := fp.ex
	fnName := fp.eng.displayName(fp.fn)
	if len(fp.paths) > 0 {
		fp.traceSig(fp.paths[0]) // initialise the grow-block table before going parallel
	}
	type group struct {
		c      *Cut
		startA *State
		startB *State
		pathsA []*PathEnd
		pathsB []*PathEnd
	}
	var groups []*group
	mk := func(c *Cut, startA *State, first *ssa.BasicBlock) {
		g := &group{c: c, startA: startA}
		g.startB = fp.relStartB(c, startA)
		for _, pe := range fp.paths {
			if pe.From == c {
				g.pathsA = append(g.pathsA, pe)
			}
		}
		ex.explore(g.startB.clone(), first, c, fp.cutMap, g.startB, true, func(pe *PathEnd) { g.pathsB = append(g.pathsB, pe) })
		groups = append(groups, g)
	}
	if len(fp.fn.Blocks) > 0 {
		mk(nil, fp.s0, fp.fn.Blocks[0])
	}
	for _, c := range fp.cuts {
		mk(c, fp.starts[c], c.Block)
	}
	var wg sync.WaitGroup
	for _, g := range groups {
		g := g
		wg.Add(1)
		go func() {
			defer wg.Done()
			from := "entry"
			if g.c != nil {
				from = g.c.Label
			}
			// hypotheses: unary invariants of both runs + relational invariant
			var hs []*Term
			var qs []*QFact
			if g.c != nil {
				h1, q1 := fp.startHypsPhase(&PathEnd{From: g.c}, "light")
				hs, qs = append(hs, h1...), append(qs, q1...)
				for _, a := range append(append([]*Atom{}, fp.given[g.c]...), fp.cands[g.c]...) {
					if a.Droppable && !fp.alive[g.c][a] {
						continue
					}
					r, err := a.eval(ex, g.startB.clone(), false)
					if err == nil {
						hs = append(hs, r.hs...)
						hs = append(hs, r.t)
						qs = append(qs, r.qs...)
					}
				}
				rh, rq := fp.relInvariant(g.startA, g.startB)
				hs, qs = append(hs, rh...), append(qs, rq...)
			}
			hs = append(hs, g.startB.pc...)
			for _, pa := range g.pathsA {
				if pa.Kind == "abort" || pa.Kind == "panic" {
					continue
				}
				var match []*PathEnd
				sigA := fp.traceSig(pa)
				loose := len(fp.cuts) == 0 // straight-line wrappers: the two runs may branch differently on the scratch parameter
				for _, pb := range g.pathsB {
					if loose && pa.Kind == pb.Kind {
						match = append(match, pb)
					} else if sameShape(pa, pb) && fp.traceSig(pb) == sigA {
						match = append(match, pb)
					}
				}
				end := pa.Kind
				if pa.Kind == "cut" {
					end = pa.To.Label
				} else {
					end = fmt.Sprintf("return@L%d", fp.line(pa.Pos))
				}
				// coverage: run B follows a path of the same shape
				base := append(append([]*Term{}, hs...), pa.St.pc...)
				bq := append(append([]*QFact{}, qs...), pa.St.qfacts...)
				var alts []*Term
				for _, pb := range match {
					alts = append(alts, And(pb.St.branches[len(g.startB.branches):]...))
				}
				it := goalItem{name: fmt.Sprintf("%s/%s->%s/rel/same-control-flow", fnName, from, end), kind: "rel", t: Or(alts...), nhyp: -1}
				res, q, _ := fp.query(it.name, base, bq, []*Term{it.t}, nil)
				if res.Status == "unsat" && !fp.confirm(res, q) {
					res.Status = "unknown"
				}
				fp.record(it, res, q, nil, pa)
				// related end states for every matching pair
				for _, pb := range match {
					h2 := append(append([]*Term{}, base...), pb.St.pc[len(g.startB.pc):]...)
					q2 := append(append([]*QFact{}, bq...), pb.St.qfacts...)
					it2 := goalItem{name: fmt.Sprintf("%s/%s->%s/rel/equal-outcome", fnName, from, end), kind: "rel", t: fp.relGoal(pa, pb), nhyp: -1}
					if it2.t == True {
						e := fp.ledgerEntry(it2)
						fp.mu.Lock()
						e.Instances++
						e.Trivial++
						fp.mu.Unlock()
						continue
					}
					r2, qq, _ := fp.query(it2.name, h2, q2, []*Term{it2.t}, nil)
					if r2.Status == "unsat" && !fp.confirm(r2, qq) {
						r2.Status = "unknown"
					}
					fp.record(it2, r2, qq, nil, pa)
				}
			}
		}()
	}
	wg.Wait()
}
