package main

// Invariant hints: the result of a previous inference run (sets of spec states per cut point,
// return-state contexts, surviving candidate atoms), stored under /verif/hints. Hints are only a
// starting point for the inference loop; every obligation is still generated and discharged
// afresh by the check pass, so a stale or wrong hint can cost time or make a proof fail, never
// make a wrong proof pass.

import (
	"encoding/json"
	"fmt"
	"os"
	"path/filepath"
	"sort"
)

type hintFile struct {
	Function string              `json:"function"`
	Mode     string              `json:"mode"`
	Dropped  map[string][]string `json:"dropped_atoms"` // cut label -> names of candidate atoms not kept
	S        map[string][]string `json:"spec_tuples,omitempty"`
	K        [][2]int64          `json:"return_state_contexts,omitempty"`
}

func (fp *FuncProof) hintPath() string {
	tag := fp.opts.Mode
	if fp.opts.Sim {
		tag += "-sim"
	}
	if fp.opts.Rel {
		tag += "-rel"
	}
	if fp.opts.Alloc {
		tag += "-alloc"
	}
	return filepath.Join(verifDir(), "hints", fmt.Sprintf("%s.%s.json", sanitizeFile(fp.eng.displayName(fp.fn)), tag))
}

func (fp *FuncProof) loadHints() bool {
	if os.Getenv("RJV_NO_HINTS") != "" {
		return false
	}
	b, err := os.ReadFile(fp.hintPath())
	if err != nil {
		return false
	}
	var h hintFile
	if json.Unmarshal(b, &h) != nil {
		return false
	}
	byLabel := map[string]*Cut{}
	for _, c := range fp.cuts {
		byLabel[c.Label] = c
	}
	for lbl, names := range h.Dropped {
		c := byLabel[lbl]
		if c == nil {
			continue
		}
		drop := map[string]bool{}
		for _, n := range names {
			drop[n] = true
		}
		for _, a := range fp.cands[c] {
			if drop[a.Name] {
				fp.alive[c][a] = false
			}
		}
	}
	if fp.sim != nil {
		for lbl, tuples := range h.S {
			if c := byLabel[lbl]; c != nil {
				for _, t := range tuples {
					fp.sim.S[c][t] = true
				}
			}
		}
		for _, p := range h.K {
			fp.sim.K[p] = true
		}
	}
	fp.usedHints = true
	return true
}

func (fp *FuncProof) writeHints() {
	h := hintFile{Function: fp.eng.displayName(fp.fn), Mode: fp.opts.Mode, Dropped: map[string][]string{}, S: map[string][]string{}}
	for _, c := range fp.cuts {
		var d []string
		for _, a := range fp.cands[c] {
			if !fp.alive[c][a] {
				d = append(d, a.Name)
			}
		}
		if len(d) > 0 {
			sort.Strings(d)
			h.Dropped[c.Label] = d
		}
		if fp.sim != nil {
			var ts []string
			for t := range fp.sim.S[c] {
				ts = append(ts, t)
			}
			sort.Strings(ts)
			if len(ts) > 0 {
				h.S[c.Label] = ts
			}
		}
	}
	if fp.sim != nil {
		for p := range fp.sim.K {
			h.K = append(h.K, p)
		}
		sort.Slice(h.K, func(i, j int) bool {
			if h.K[i][0] != h.K[j][0] {
				return h.K[i][0] < h.K[j][0]
			}
			return h.K[i][1] < h.K[j][1]
		})
	}
	os.MkdirAll(filepath.Dir(fp.hintPath()), 0o755)
	b, _ := json.MarshalIndent(h, "", " ")
	os.WriteFile(fp.hintPath(), append(b, '\n'), 0o644)
}
