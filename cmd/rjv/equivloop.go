package main

// Lock-step equivalence of functions with loops (C04, decimal slow path): a function of
// internal/fp and the function of the pinned strconv it was copied from are run as a product
// program. Loop heads are paired in order; at a pair of loop heads both sides start from the SAME
// symbolic values for equally named local cells and for the memory reachable from the
// (positionally identified) parameters; the obligations are
//   coverage : every path of the repository function to its next loop head / return has a path
//              of the reference with the same end point and the same sequence of calls whose
//              branch conditions hold whenever the repository path's do;
//   outcome  : for every such pair of paths the end states agree again (cells, pointees,
//              results), so that by induction over the iterations both functions return the
//              same results and leave the same memory.
// Callees are the same uninterpreted deterministic functions on both sides (of their arguments
// and of the memory reachable from them); the callees themselves are proved equivalent as their
// own pairs. Tables are shared symbols, justified by the row-by-row table obligations.

import (
	"fmt"
	"go/ast"
	"go/types"
	"os"
	"sort"
	"strings"

	"golang.org/x/tools/go/ssa"
)

type loopPair struct {
	repo, ref string
	refExtra  map[string]string // reference parameter -> package-level variable it points to
	tables    map[string]int64
	inputs    []string // read-only slice parameters of the repository function
	requires  []string // precondition of the equivalence (over the repository function's parameters); it is
	// also a `requires` of the function's contract in /repo, so every call site proves it
	invariants []string // facts about the repository side's cells at every paired loop head (proved inductively
	// together with the equality of the two states)
}

var loopPairs = []loopPair{
	{"fp.(*decimal).floatBits", "strconv.(*decimal).floatBits", map[string]string{"flt": "float64info"}, map[string]int64{"powtab": 9}, nil, nil, nil},
	{"fp.(*decimal).Shift", "strconv.(*decimal).Shift", nil, nil, nil, nil, nil},
	{"fp.rightShift", "strconv.rightShift", nil, nil, nil, nil, nil},
	{"fp.leftShift", "strconv.leftShift", nil, map[string]int64{"leftcheats": 61}, nil, nil, nil},
	{"fp.prefixIsLessThan", "strconv.prefixIsLessThan", nil, nil, nil, nil, nil},
	{"fp.trim", "strconv.trim", nil, nil, nil, nil, nil},
	{"fp.shouldRoundUp", "strconv.shouldRoundUp", nil, nil, nil, nil, nil},
	{"fp.(*decimal).RoundedInteger", "strconv.(*decimal).RoundedInteger", nil, nil, nil, nil, nil},
	// set: strconv's version also skips '_' and accepts a leading '+'; on inputs without them (which is
	// what ParseJSONFloatPrefix passes: the bytes of an accepted JSON number) the two agree
	{"fp.(*decimal).set", "strconv.(*decimal).set", nil, nil, []string{"data"},
		[]string{"forall(j, 0, len(data), data[j] != '_')", "len(data) > 0", "data[0] != '+'"}, []string{"!ok"}},
}

func stripPkg(key string) string {
	if i := strings.Index(key, "."); i >= 0 {
		return key[i+1:]
	}
	return key
}

// flattenEq: everything a callee can observe through an argument, as terms.
func (ex *Exec) flattenEq(st *State, v Value, out *[]*Term) {
	switch x := v.(type) {
	case *Term:
		*out = append(*out, x)
	case *SliceV:
		*out = append(*out, st.loadArr(ex, x.Reg), x.Off, x.Len)
	case *StringV:
		*out = append(*out, st.loadArr(ex, x.Reg), x.Off, x.Len)
	case *PtrV:
		*out = append(*out, x.Nil)
		if x.P.Root != nil {
			ex.flattenEq(st, ex.load(st, x.P), out)
		}
	case *StructV:
		for _, f := range x.Fields {
			ex.flattenEq(st, f, out)
		}
	case *ArrayV:
		*out = append(*out, x.Arr)
	case TupleV:
		for _, f := range x {
			ex.flattenEq(st, f, out)
		}
	}
}

// detValue: a value of the shape of old (or of type t when old is nil) whose components are
// deterministic functions of the flattened arguments.
func (ex *Exec) detValue(name string, old Value, t types.Type, flat []*Term) Value {
	switch x := old.(type) {
	case *Term:
		return App(name, x.Sort, flat...)
	case *StructV:
		sv := &StructV{T: x.T}
		for k, f := range x.Fields {
			sv.Fields = append(sv.Fields, ex.detValue(name+"."+x.T.Field(k).Name(), f, x.T.Field(k).Type(), flat))
		}
		return sv
	case *ArrayV:
		return &ArrayV{Arr: App(name, x.Arr.Sort, flat...), Len: x.Len, ElemT: x.ElemT}
	}
	if t != nil {
		if s := sortOf(t); s != nil {
			return App(name, s, flat...)
		}
	}
	return old
}

func (ex *Exec) equivCall(st *State, i *ssa.Call, f *ssa.Function, canon string, args []Value) Value {
	var flat []*Term
	for _, a := range args {
		ex.flattenEq(st, a, &flat)
	}
	st.events = append(st.events, &Event{Kind: "call", Site: canon, Args: args, NPC: len(st.pc), Pos: i.Pos()})
	// memory the callee may write: pointees and non-constant slices
	for k, a := range args {
		switch x := a.(type) {
		case *PtrV:
			if x.P.Root == nil {
				continue
			}
			if _, isGlobal := x.P.Root.(*ssa.Global); isGlobal {
				continue
			}
			old := ex.load(st, x.P)
			ex.storeTo(st, x.P, ex.detValue(fmt.Sprintf("eqv.%s.arg%d", canon, k), old, nil, flat))
		case *SliceV:
			if x.Reg.Input || x.Reg.Kind == "string" || x.Reg.Kind == "nil" {
				continue
			}
			if x.Reg.Kind == "view" {
				// a snapshot of an array: sound only if the callee does not write through it
				if k >= len(f.Params) || !readOnlyParam(f.Params[k], 0) {
					ex.unsupported(st, "equivalence call model: callee may write through an array view", i.Pos())
				}
				continue
			}
			arr := st.loadArr(ex, x.Reg)
			st.store[x.Reg] = &ArrayV{Arr: App(fmt.Sprintf("eqv.%s.arg%d.arr", canon, k), arr.Sort, flat...)}
		}
	}
	rs := f.Signature.Results()
	var results TupleV
	for j := 0; j < rs.Len(); j++ {
		nm := fmt.Sprintf("eqv.%s.res%d", canon, j)
		if s := sortOf(rs.At(j).Type()); s != nil {
			results = append(results, App(nm, s, flat...))
		} else {
			ex.unsupported(st, "equivalence call model: result type "+rs.At(j).Type().String(), i.Pos())
			results = append(results, ex.freshValue(st, nm, rs.At(j).Type(), "fresh"))
		}
	}
	switch len(results) {
	case 0:
		return nil
	case 1:
		return results[0]
	}
	return results
}

// TableV: a package-level slice of structs shared by both sides of an equivalence proof; field f
// of row k is the uninterpreted tbl.shared.<name>.<f>(k), string fields live in one shared byte
// region at table-determined offsets.
type TableV struct {
	Name string
	T    *types.Struct
	N    int64
}

func (ex *Exec) tableField(st *State, tv *TableV, k *Term, field int) Value {
	f := tv.T.Field(field)
	base := "tbl.shared." + tv.Name + "." + f.Name()
	if b, ok := f.Type().Underlying().(*types.Basic); ok && b.Kind() == types.String {
		ex.sharedRegMu.Lock()
		r := ex.sharedRegs[tv.Name+"."+f.Name()]
		if r == nil {
			r = &Region{ID: -200 - len(ex.sharedRegs), Name: base, Elem: BV(8), Kind: "string"}
			ex.sharedRegs[tv.Name+"."+f.Name()] = r
		}
		ex.sharedRegMu.Unlock()
		st.store[r] = &ArrayV{Arr: Var(base+".bytes", ArraySort(BV(64), BV(8)))}
		off := App(base+".off", BV(64), k)
		ln := App(base+".len", BV(64), k)
		st.assume(And(Sle(I64(0), off), Sle(off, I64(1<<maxAllocLog)), Sle(I64(0), ln), Sle(ln, I64(1<<maxAllocLog))))
		return &StringV{Reg: r, Off: off, Len: ln}
	}
	if s := sortOf(f.Type()); s != nil {
		return App(base, s, k)
	}
	return &OpaqueV{T: f.Type(), Name: base}
}

type eqStart struct {
	a, b   *Cut // nil: entry
	sa, sb *State
}

func (r *Runner) loopEquivObligations() []*LedgerEntry {
	eng := r.eng
	var out []*LedgerEntry
	add := func(e *LedgerEntry) {
		for _, x := range out {
			if x.Name == e.Name {
				x.Instances += e.Instances
				if e.Status != "discharged" && x.Status == "discharged" {
					x.Status, x.Detail, x.failQ, x.failRes, x.Model, x.Solver = e.Status, e.Detail, e.failQ, e.failRes, e.Model, e.Solver
				}
				x.Secs += e.Secs
				return
			}
		}
		out = append(out, e)
	}
	fail := func(name, detail string) {
		add(&LedgerEntry{Name: name, Kind: "equiv", Fn: "internal/fp", Instances: 1, Status: "failed", Detail: detail})
	}
	canon := map[string]string{}
	for _, pr := range loopPairs {
		canon[pr.repo] = stripPkg(pr.repo)
		canon[pr.ref] = stripPkg(pr.repo)
	}
	for _, pr := range loopPairs {
		base := "fp.equiv/" + pr.repo + "==" + pr.ref
		fa := eng.lookupFunc(pr.repo)
		fb := eng.refFunc(pr.ref)
		if fa == nil || fb == nil {
			fail(base+"/functions-present", "function not found")
			continue
		}
		var fcA *FuncContract
		if len(pr.inputs)+len(pr.requires) > 0 {
			fcA = &FuncContract{Name: pr.repo, Input: map[string]bool{}, Scratch: map[string]bool{}, Loops: map[int]*LoopContract{}, SimOpts: map[string]string{}}
			for _, n := range pr.inputs {
				fcA.Input[n] = true
			}
			for _, n := range fa.Params {
				fcA.Params = append(fcA.Params, n.Name())
			}
			okReq := true
			for _, txt := range pr.requires {
				e, err := parseSpecExpr(txt)
				if err != nil {
					fail(base+"/precondition-parses", err.Error())
					okReq = false
					continue
				}
				fcA.Requires = append(fcA.Requires, &Clause{Text: txt, Expr: e})
			}
			if !okReq {
				continue
			}
			// the same precondition must be part of the function's contract in /repo (proved at call sites)
			real := eng.contracts.Funcs[pr.repo]
			for _, txt := range pr.requires {
				found := false
				if real != nil {
					for _, c := range real.Requires {
						if strings.Contains(strings.Join(strings.Fields(c.Text), ""), strings.Join(strings.Fields(txt), "")) {
							found = true
						}
					}
				}
				e := &LedgerEntry{Name: base + "/precondition-is-a-requires-of-the-contract/" + txt, Kind: "equiv", Fn: pr.repo, Instances: 1, Status: "discharged", Solver: "contract-text"}
				if !found {
					e.Status = "failed"
					e.Detail = "the equivalence is proved under a precondition that the contract in /repo does not require of callers"
				}
				add(e)
			}
		}
		mk := func(fn *ssa.Function) *FuncProof {
			var fc *FuncContract
			if fn == fa {
				fc = fcA
			}
			fp := eng.NewFuncProof(fn, fc, ProofOpts{Mode: "hostile"})
			ex := fp.ex
			ex.equivCalls = canon
			ex.sharedTables = map[string]bool{}
			ex.sharedLens = map[string]int64{}
			ex.sharedRegs = map[string]*Region{}
			for n, l := range pr.tables {
				ex.sharedTables[n] = true
				if l > 0 {
					ex.sharedLens[n] = l
				}
			}
			return fp
		}
		fpA, fpB := mk(fa), mk(fb)
		fpA.Prepare()
		// reference side: same parameter values (positional), extra parameters point to constants
		exA, exB := fpA.ex, fpB.ex
		fpB.s0 = exB.entryState()
		na := 0
		for _, p := range fb.Params {
			if g, ok := pr.refExtra[p.Name()]; ok {
				gv := eng.refGlobal(pr.ref, g)
				if gv == nil {
					fail(base+"/reference-constant-present", "package-level variable "+g+" not found in the reference")
					continue
				}
				exB.params[p.Name()] = &PtrV{Nil: False, P: Place{Root: gv}, T: gv.Type().(*types.Pointer).Elem()}
				continue
			}
			if na < len(fa.Params) {
				av := exA.params[fa.Params[na].Name()]
				if sv, ok := av.(*SliceV); ok {
					if bt, isStr := p.Type().Underlying().(*types.Basic); isStr && bt.Kind() == types.String {
						av = &StringV{Reg: sv.Reg, Off: sv.Off, Len: sv.Len}
					}
				}
				exB.params[p.Name()] = av
				na++
			}
		}
		if na != len(fa.Params) {
			fail(base+"/same-signature", "parameter lists do not correspond")
			continue
		}
		// memory reachable from the shared parameters is the same on both sides
		for root, v := range fpA.s0.store {
			switch root.(type) {
			case *Region, *Object:
				fpB.s0.store[root] = v
			}
		}
		fpB.s0.pc = append(fpB.s0.pc, fpA.s0.pc...)
		cutsB := exB.findCuts()
		cutMapB := map[*ssa.BasicBlock]*Cut{}
		for _, c := range cutsB {
			cutMapB[c.Block] = c
		}
		if len(cutsB) != len(fpA.cuts) {
			fail(base+"/same-loop-structure", fmt.Sprintf("%d loop heads vs %d in the reference", len(fpA.cuts), len(cutsB)))
			continue
		}
		ca := append([]*Cut{}, fpA.cuts...)
		cb := append([]*Cut{}, cutsB...)
		sort.Slice(ca, func(i, j int) bool { return ca[i].Block.Index < ca[j].Block.Index })
		sort.Slice(cb, func(i, j int) bool { return cb[i].Block.Index < cb[j].Block.Index })
		pairOf := map[*Cut]*Cut{}
		ordOf := map[*Cut]int{}
		for k := range ca {
			pairOf[ca[k]] = cb[k]
			ordOf[ca[k]] = k + 1
			ordOf[cb[k]] = k + 1
		}
		// entry-final state of the reference (frozen cells, entry-block registers)
		baseB := fpB.s0
		exB.entryFinal = nil
		if len(fb.Blocks) > 0 && len(fb.Blocks[0].Preds) == 0 && !exB.cutAt[fb.Blocks[0]] {
			b := fb.Blocks[0]
			states := []*State{fpB.s0.clone()}
			ok := true
			for _, ins := range b.Instrs[:len(b.Instrs)-1] {
				states = exB.execInstr(states[0], ins)
				if len(states) != 1 || states[0].dead {
					ok = false
					break
				}
			}
			if ok {
				exB.entryFinal = states[0]
				baseB = states[0]
			}
		}
		cellsB := map[string]*ssa.Alloc{}
		for n, a := range exB.cells {
			cellsB[n] = a
		}
		var invExprs []ast.Expr
		for _, txt := range pr.invariants {
			e, err := parseSpecExpr(txt)
			if err != nil {
				fail(base+"/invariant-parses", err.Error())
				continue
			}
			invExprs = append(invExprs, e)
		}
		var starts []eqStart
		starts = append(starts, eqStart{nil, nil, fpA.s0, fpB.s0})
		for _, c := range ca {
			sa := fpA.starts[c]
			sb := exB.cutState(baseB, pairOf[c])
			for root, v := range sa.store {
				switch root.(type) {
				case *Region, *Object:
					sb.store[root] = v
				}
			}
			for n, al := range exA.cells {
				bl := cellsB[n]
				if bl == nil || !types.Identical(al.Type(), bl.Type()) {
					continue
				}
				if exA.mutable[al] != exB.mutable[bl] {
					continue
				}
				if v, ok := sa.store[al]; ok && exB.mutable[bl] {
					sb.store[bl] = v
				}
			}
			sa = sa.clone()
			for _, t := range evalInvs(exA, sa, invExprs) {
				sa.assume(t)
			}
			sb.pc = append(append([]*Term{}, sa.pc...), sb.pc...)
			starts = append(starts, eqStart{c, pairOf[c], sa, sb})
		}
		if len(exA.unsup) > 0 {
			fail(base+"/within-subset", fmt.Sprint(exA.unsup))
		}
		for _, s := range starts {
			from := "entry"
			var pathsA, pathsB []*PathEnd
			for _, pe := range fpA.paths {
				if pe.From == s.a {
					pathsA = append(pathsA, pe)
				}
			}
			firstB := fb.Blocks[0]
			if s.b != nil {
				firstB = s.b.Block
				from = fmt.Sprintf("loop#%d", ordOf[s.a])
			}
			exB.explore(s.sb.clone(), firstB, s.b, cutMapB, s.sb, true, func(pe *PathEnd) { pathsB = append(pathsB, pe) })
			if len(exB.unsup) > 0 {
				fail(base+"/reference-within-subset", fmt.Sprint(exB.unsup))
				exB.unsup = nil
			}
			endName := func(pe *PathEnd) string {
				switch pe.Kind {
				case "cut":
					return fmt.Sprintf("loop#%d", ordOf[pe.To])
				case "return":
					return "return"
				}
				return pe.Kind
			}
			calls := func(pe *PathEnd) string {
				var cs []string
				for _, ev := range pe.St.events {
					if ev.Kind == "call" || ev.Kind == "call-nocontract" {
						cs = append(cs, ev.Site)
					}
				}
				return strings.Join(cs, ",")
			}
			for _, pa := range pathsA {
				if pa.Kind == "abort" {
					fail(base+"/"+from+"/path-enumeration", "path enumeration aborted")
					continue
				}
				var match []*PathEnd
				for _, pb := range pathsB {
					if endName(pb) == endName(pa) && calls(pb) == calls(pa) {
						match = append(match, pb)
					}
				}
				name := fmt.Sprintf("%s/%s->%s", base, from, endName(pa))
				// coverage
				var alts []*Term
				for _, pb := range match {
					alts = append(alts, And(pb.St.branches[len(s.sb.branches):]...))
				}
				hyps := append([]*Term{}, pa.St.pc...)
				if s.a != nil {
					hyps = append(hyps, evalInvs(exA, fpA.starts[s.a], invExprs)...)
				}
				qf := append([]*QFact{}, pa.St.qfacts...)
				for _, pb := range match {
					// facts assumed on the reference side about values it introduced (callee results etc.)
					_ = pb
				}
				{
					q := &Query{Name: name + "/same-control-flow", Hyps: hyps, QFacts: qf, Goals: []*Term{Or(alts...)}}
					e := &LedgerEntry{Name: q.Name, Kind: "equiv", Fn: pr.repo, Instances: 1, Status: "discharged", Solver: "term-identity"}
					if q.Goals[0] != True {
						q.Values = FreeVars(hyps...)
						body, vals := q.Build(0)
						res := eng.pool.Decide(body, vals, r.quickMs, r.slowMs)
						e.Solver, e.Secs = res.Solver, res.Secs
						if res.Status != "unsat" {
							e.Status = "failed"
							if res.Status != "sat" {
								e.Status = "undecided"
							}
							e.Detail = fmt.Sprintf("solver answered %s (repository path %s; %d candidate reference paths)", res.Status, fpA.tracePath(pa), len(match))
							e.Model = fmtModel(q.Values, vals, res)
							e.failQ, e.failRes = q, res
						}
					}
					add(e)
				}
				for _, pb := range match {
					goal := eqOutcome(exA, exB, pa, pb)
					if pa.Kind == "cut" {
						goal = And(append([]*Term{goal}, evalInvs(exA, pa.St, invExprs)...)...)
					}
					e := &LedgerEntry{Name: name + "/equal-outcome", Kind: "equiv", Fn: pr.repo, Instances: 1, Status: "discharged", Solver: "term-identity"}
					if goal != True {
						h2 := append(append([]*Term{}, hyps...), pb.St.pc[len(s.sb.pc):]...)
						q2 := append(append([]*QFact{}, qf...), pb.St.qfacts...)
						q := &Query{Name: e.Name, Hyps: h2, QFacts: q2, Goals: []*Term{goal}, Values: FreeVars(h2...)}
						body, vals := q.Build(0)
						res := eng.pool.Decide(body, vals, r.quickMs, r.slowMs)
						e.Solver, e.Secs = res.Solver, res.Secs
						if res.Status != "unsat" {
							e.Status = "failed"
							if res.Status != "sat" {
								e.Status = "undecided"
							}
							e.Detail = fmt.Sprintf("solver answered %s (repository path %s)", res.Status, fpA.tracePath(pa))
							if os.Getenv("RJV_EQDEBUG") != "" {
								parts := []*Term{goal}
								if goal.Op == "and" {
									parts = goal.Args
								}
								for _, g := range parts {
									qq := &Query{Name: "dbg", Hyps: h2, QFacts: q2, Goals: []*Term{g}}
									bb, _ := qq.Build(0)
									rr := eng.pool.Decide(bb, nil, r.quickMs, r.slowMs)
									if rr.Status != "unsat" {
										gs := g.String()
										if len(gs) > 400 {
											gs = gs[:400]
										}
										fmt.Printf(";; EQDEBUG %s: %s fails: %s\n", e.Name, rr.Status, gs)
									}
								}
							}
							e.Model = fmtModel(q.Values, vals, res)
							e.failQ, e.failRes = q, res
						}
					}
					add(e)
				}
			}
		}
	}
	return out
}

func eqValue(x, y Value) *Term {
	switch xv := x.(type) {
	case nil:
		if y == nil {
			return True
		}
		return False
	case *Term:
		if yv, ok := y.(*Term); ok && xv.Sort == yv.Sort {
			return Eq(xv, yv)
		}
		return False
	case *StructV:
		yv, ok := y.(*StructV)
		if !ok || len(xv.Fields) != len(yv.Fields) {
			return False
		}
		var gs []*Term
		for k := range xv.Fields {
			gs = append(gs, eqValue(xv.Fields[k], yv.Fields[k]))
		}
		return And(gs...)
	case *ArrayV:
		yv, ok := y.(*ArrayV)
		if !ok || xv.Arr.Sort != yv.Arr.Sort {
			return False
		}
		return Eq(xv.Arr, yv.Arr)
	case *SliceV:
		yv, ok := y.(*SliceV)
		if !ok || xv.Reg != yv.Reg {
			return False
		}
		return And(Eq(xv.Off, yv.Off), Eq(xv.Len, yv.Len), Eq(xv.Cap, yv.Cap))
	case *StringV:
		yv, ok := y.(*StringV)
		if !ok {
			return False
		}
		if xv.Reg != yv.Reg && !(xv.Reg.Name == yv.Reg.Name && xv.Reg.Kind == "string") {
			return False
		}
		return And(Eq(xv.Off, yv.Off), Eq(xv.Len, yv.Len))
	case *PtrV:
		yv, ok := y.(*PtrV)
		if !ok || xv.P.Root != yv.P.Root || len(xv.P.Path) != len(yv.P.Path) {
			return False
		}
		return Eq(xv.Nil, yv.Nil)
	case TupleV:
		yv, ok := y.(TupleV)
		if !ok || len(xv) != len(yv) {
			return False
		}
		var gs []*Term
		for k := range xv {
			gs = append(gs, eqValue(xv[k], yv[k]))
		}
		return And(gs...)
	}
	return False
}

// eqOutcome: the two end states agree on everything the continuation can observe.
func eqOutcome(exA, exB *Exec, pa, pb *PathEnd) *Term {
	var gs []*Term
	// shared memory (pointees of parameters, parameter slices)
	for root, va := range pa.St.store {
		switch rt := root.(type) {
		case *Region, *Object:
			if r, isReg := rt.(*Region); isReg && (r.Kind == "string" || r.Kind == "view" || r.Kind == "nil") {
				continue // immutable data / snapshots
			}
			if vb, ok := pb.St.store[root]; ok {
				gs = append(gs, eqValue(va, vb))
			}
		}
	}
	switch pa.Kind {
	case "cut":
		for n, al := range exA.cells {
			bl := exB.cells[n]
			if bl == nil || !exA.mutable[al] || !exB.mutable[bl] || !types.Identical(al.Type(), bl.Type()) {
				continue
			}
			va, ok1 := pa.St.store[al]
			vb, ok2 := pb.St.store[bl]
			if ok1 && ok2 {
				gs = append(gs, eqValue(va, vb))
			}
		}
		// cells that exist (mutable) on one side only would be unconstrained after the cut
		for n, bl := range exB.cells {
			if exB.mutable[bl] {
				if al := exA.cells[n]; al == nil || !exA.mutable[al] {
					gs = append(gs, False)
				}
			}
		}
	case "return":
		if len(pa.Results) != len(pb.Results) {
			return False
		}
		for j := range pa.Results {
			gs = append(gs, eqValue(pa.Results[j], pb.Results[j]))
		}
	}
	return And(gs...)
}

// readOnlyParam: the slice parameter is only indexed for loading, measured, or re-sliced.
func readOnlyParam(v ssa.Value, depth int) bool {
	if depth > 4 || v.Referrers() == nil {
		return false
	}
	for _, ref := range *v.Referrers() {
		switch x := ref.(type) {
		case *ssa.DebugRef:
		case *ssa.IndexAddr:
			if x.X != v || x.Referrers() == nil {
				return false
			}
			for _, r2 := range *x.Referrers() {
				if u, ok := r2.(*ssa.UnOp); !ok || u.X != x {
					if _, dbg := r2.(*ssa.DebugRef); !dbg {
						return false
					}
				}
			}
		case *ssa.Slice:
			if !readOnlyParam(x, depth+1) {
				return false
			}
		case *ssa.Call:
			b, ok := x.Call.Value.(*ssa.Builtin)
			if !ok || (b.Name() != "len" && b.Name() != "cap") {
				return false
			}
		case *ssa.Store:
			// NaiveForm: the parameter is spilled into its cell; the cell's loads are checked below
			al, ok := x.Addr.(*ssa.Alloc)
			if !ok || x.Val != v || al.Referrers() == nil {
				return false
			}
			for _, r2 := range *al.Referrers() {
				switch y := r2.(type) {
				case *ssa.Store:
					if y != x {
						return false
					}
				case *ssa.UnOp:
					if !readOnlyParam(y, depth+1) {
						return false
					}
				case *ssa.DebugRef:
				default:
					return false
				}
			}
		default:
			return false
		}
	}
	return true
}

func evalInvs(ex *Exec, st *State, es []ast.Expr) []*Term {
	var out []*Term
	for _, e := range es {
		env := ex.cellEnv(st, false)
		var hs []*Term
		var qs []*QFact
		env.hsink, env.qsink = &hs, &qs
		t, err := env.EvalBool(e)
		if err != nil {
			out = append(out, False)
			continue
		}
		out = append(out, t)
	}
	return out
}
