package main

// Proof drivers beyond plain contracts (spec simulation, relational, frames, tables) and the
// concrete replay of counterexamples.

type replayTest struct {
	File, Cmd, Output, Input string
	Reproduced               bool
}

func configureDriver(eng *Engine, j Job, opts *ProofOpts) {}

func runExtras(r *Runner, p *Property, tier string) ([]*LedgerEntry, []string) { return nil, nil }

func concreteReplay(eng *Engine, p *Property, e *LedgerEntry, fp *FuncProof, base string) (replayTest, bool) {
	return replayTest{}, false
}
