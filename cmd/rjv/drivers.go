package main

import (
	"fmt"
	"go/token"
	"go/types"
	"path/filepath"
	"sort"
	"strings"

	"golang.org/x/tools/go/ssa"
)

// Proof drivers beyond plain contracts (spec simulation, relational, frames, tables) and the
// concrete replay of counterexamples.

type replayTest struct {
	File, Cmd, Output, Input string
	Reproduced               bool
}

func configureDriver(eng *Engine, j Job, opts *ProofOpts) {}

func runExtras(r *Runner, p *Property, tier string) ([]*LedgerEntry, []string) {
	var out []*LedgerEntry
	var broken []string
	for _, x := range p.Extra {
		switch x {
		case "spec-lemmas":
			out = append(out, specLemmaObligations(r)...)
		case "dv-lemmas":
			out = append(out, dvLemmaObligations(r)...)
		case "fp-equiv":
			out = append(out, r.equivObligations()...)
		case "bounded-string-content":
			out = append(out, boundedStandIn(r, "C06", "ReadStringBytes", "string-content", []byte("\"\\ubfnrt/a0D8C "))...)
		case "bounded-float-differential":
			out = append(out, boundedStandIn(r, "C04", "ReadFloat64", "float-differential", nil)...)
		case "bounded-append-semantics":
			e1 := &LedgerEntry{Kind: "ensures"}
			_ = e1
			out = append(out, boundedStandInKind(r, "C16", "ReadStringBytes", "append-semantics-ReadStringBytes", []byte("\"\\unD8a0 "), "ensures")...)
			out = append(out, boundedStandInKind(r, "C16", "UnescapeStringContent", "append-semantics-UnescapeStringContent", []byte("\"\\unD8a0 "), "ensures")...)
		case "bounded-safety-uncovered":
			out = append(out, boundedStandInKind(r, "C10", "uncovered", "no-panic-of-functions-not-under-contract", []byte(`[]{}",:1\u `), "bounds")...)
		case "bounded-zero-alloc":
			out = append(out, boundedStandIn(r, "C19", "readers", "zero-alloc", nil)...)
		case "fp-noalloc-scan":
			out = append(out, allocFreeScan(r.eng, "fp.(*decimal).floatBits")...)
		case "fp-equiv-loops":
			out = append(out, r.loopEquivObligations()...)
		case "fp-tables":
			out = append(out, r.eng.fpTableObligations()...)
		case "global-store-scan":
			out = append(out, globalStoreScan(r.eng)...)
		}
	}
	return out, broken
}

// specLemmaObligations: base and step of the absorption lemma, for both spec variants
// (with and without the nesting limit), as quantifier-free obligations over an arbitrary run R.
func specLemmaObligations(r *Runner) []*LedgerEntry {
	var out []*LedgerEntry
	tab := specTab()
	for _, v := range []struct {
		name  string
		limit int64
	}{{"value", 10000}, {"travarr", -1}, {"travobj", -1}} {
		ex := &Exec{eng: r.eng, simVariant: v.name, simLimit: v.limit}
		arr := Var("lemma.arr", ArraySort(BV(64), BV(8)))
		a := Var("lemma.a", BV(64))
		n := Var("lemma.n", BV(64))
		absorbed := func(k *Term) *Term {
			qa := ex.Rq(arr, a)
			return And(Eq(ex.Rq(arr, k), qa), Eq(ex.Rend(arr, k), ex.Rend(arr, a)))
		}
		qa := ex.Rq(arr, a)
		hyp := And(Sle(I64(0), a), Or(Eq(qa, q8(tab.Dead())), Eq(qa, q8(tab.Done()))))
		cases := []lemmaCase{
			{"base", []*Term{hyp}, absorbed(a)},
			{"step", []*Term{hyp, Sle(a, n), Slt(n, I64(1<<62)), absorbed(n), ex.stepAxiom(arr, n)}, absorbed(Add(n, I64(1)))},
		}
		if v.name == "value" {
			// ws-prefix lemma, step: in the initial configuration a whitespace byte changes nothing
			before := q8(tab.ID(rjvSpecLocal{Ctl: rjvSpecBefore, Ctx: rjvSpecCtxTop}))
			isws := byteIn(Select(arr, n), ' ', '\t', '\r', '\n')
			cases = append(cases, lemmaCase{"wsprefix-step", []*Term{Eq(ex.Rq(arr, n), before), Eq(ex.Rdepth(arr, n), I64(0)), isws, ex.stepAxiom(arr, n)},
				And(Eq(ex.Rq(arr, Add(n, I64(1))), before), Eq(ex.Rdepth(arr, Add(n, I64(1))), I64(0)))})
		}
		if v.name == "value" {
			cases = append(cases, countLemmaCases(r, arr)...)
		}
		for _, c := range cases {
			q := &Query{Name: "spec/absorb/" + c.name, Hyps: c.hyps, Goals: []*Term{c.goal}}
			body, _ := q.Build(0)
			res := r.eng.pool.Decide(body, nil, r.quickMs, r.slowMs)
			e := &LedgerEntry{Name: "spec[" + v.name + "]/lemma/" + c.name, Kind: "lemma", Fn: "spec", Instances: 1, Solver: res.Solver, Secs: res.Secs, Status: "discharged"}
			if res.Status != "unsat" {
				e.Status = "failed"
				if res.Status != "sat" {
					e.Status = "undecided"
				}
				e.Detail = "solver answered " + res.Status
				e.failQ = q
				e.failRes = res
			}
			out = append(out, e)
		}
	}
	return out
}

type lemmaCase struct {
	name string
	hyps []*Term
	goal *Term
}

// countLemmaCases: the counters na / no of the spec transducer equal the number of array /
// object frames on its stack (cnt, defined by recursion over the stack height), hence the
// consequences used by the fast machine's simulation (Exec.countLemma). Everything is proved by
// induction with explicit instances of cnt's defining equation:
//
//	frame-*  : cnt(K, store(f,d,x), j) == cnt(K, f, j) for 0 <= j <= d          (induction on j)
//	bound-*  : 0 <= cnt(K,f,j) <= j, and >= 1 when j >= 1 and f[0] == K           (induction on j)
//	inv-*    : q(k) == Dead or (0 <= depth(k) <= limit and na(k) == cnt(Arr, frame(k), depth(k))
//	           and no(k) == cnt(Obj, ...))                                       (induction on k)
//	final    : inv(k) and bound(depth(k)) imply countLemma(k)
func countLemmaCases(r *Runner, arr *Term) []lemmaCase {
	tab := specTab()
	ex := &Exec{eng: r.eng, simVariant: "value", simLimit: 10000, simFast: true}
	fs := ArraySort(BV(64), BV(8))
	cnt := func(K, f, j *Term) *Term { return App("framecnt", BV(64), K, f, j) }
	unfold := func(K, f, j *Term) *Term {
		prev := Sub(j, I64(1))
		return Eq(cnt(K, f, j), Ite(Sle(j, I64(0)), I64(0), Add(cnt(K, f, prev), Ite(Eq(Select(f, prev), K), I64(1), I64(0)))))
	}
	K := Var("lemma.K", BV(8))
	f := Var("lemma.f", fs)
	d := Var("lemma.d", BV(64))
	x := Var("lemma.x", BV(8))
	j := Var("lemma.j", BV(64))
	j1 := Add(j, I64(1))
	f2 := Store(f, d, x)
	pa := func(j *Term) *Term { return Eq(cnt(K, f2, j), cnt(K, f, j)) }
	big := I64(1 << 40)
	pb := func(K, f, j *Term) *Term {
		c := cnt(K, f, j)
		return And(Sle(I64(0), c), Sle(c, j), Implies(And(Sle(I64(1), j), Eq(Select(f, I64(0)), K)), Sle(I64(1), c)))
	}
	k := Var("lemma.k", BV(64))
	k1 := Add(k, I64(1))
	kA, kO := q8(ctxKindArr), q8(ctxKindObj)
	inv := func(k *Term) *Term {
		dk, fk := ex.Rdepth(arr, k), ex.Rframe(arr, k)
		return Or(Eq(ex.Rq(arr, k), q8(tab.Dead())),
			And(Sle(I64(0), dk), Sle(dk, I64(10000)), Eq(ex.Rna(arr, k), cnt(kA, fk, dk)), Eq(ex.Rno(arr, k), cnt(kO, fk, dk))))
	}
	dk, fk := ex.Rdepth(arr, k), ex.Rframe(arr, k)
	dk1, fk1 := ex.Rdepth(arr, k1), ex.Rframe(arr, k1)
	// frame lemma instance for the push case of the step: the stored slot is above the counted range
	frameInst := func(K *Term) *Term {
		return Implies(Sle(I64(0), dk), And(Eq(cnt(K, Store(fk, dk, kA), dk), cnt(K, fk, dk)), Eq(cnt(K, Store(fk, dk, kO), dk), cnt(K, fk, dk))))
	}
	var stepHyps []*Term
	stepHyps = append(stepHyps, Sle(I64(0), k), Slt(k, I64(1<<62)), inv(k), ex.stepAxiom(arr, k))
	for _, K := range []*Term{kA, kO} {
		stepHyps = append(stepHyps, unfold(K, fk, dk), unfold(K, fk1, dk1), frameInst(K))
	}
	// well-formed frames: every slot below the depth holds an array or object marker
	kindOK := func(x *Term) *Term { return Or(Eq(x, kA), Eq(x, kO)) }
	wf := func(k, j *Term) *Term {
		// the depth stays within [-k-1, k] (no wrap-around), and the slots below it are well-formed
		return And(Sle(Sub(Sub(I64(0), k), I64(1)), ex.Rdepth(arr, k)), Sle(ex.Rdepth(arr, k), k),
			Implies(And(Sle(I64(0), j), Slt(j, ex.Rdepth(arr, k))), kindOK(Select(ex.Rframe(arr, k), j))))
	}
	return []lemmaCase{
		{"count-wf-base", []*Term{ex.initAxiom(arr)}, wf(I64(0), j)},
		{"count-wf-step", []*Term{Sle(I64(0), k), Slt(k, I64(1<<62)), wf(k, j), ex.stepAxiom(arr, k)}, wf(k1, j)},
		{"count-final-wf", []*Term{wf(k, I64(0)), wf(k, Sub(dk, I64(1)))}, Implies(Sle(I64(1), dk), And(kindOK(Select(fk, I64(0))), kindOK(Select(fk, Sub(dk, I64(1))))))},
		{"count-frame-base", []*Term{unfold(K, f2, I64(0)), unfold(K, f, I64(0))}, pa(I64(0))},
		{"count-frame-step", []*Term{Sle(I64(0), j), Slt(j, d), pa(j), unfold(K, f2, j1), unfold(K, f, j1)}, pa(j1)},
		{"count-bound-base", []*Term{unfold(K, f, I64(0))}, pb(K, f, I64(0))},
		{"count-bound-step", []*Term{Sle(I64(0), j), Slt(j, big), pb(K, f, j), unfold(K, f, j1)}, pb(K, f, j1)},
		{"count-inv-base", []*Term{ex.initAxiom(arr), unfold(kA, ex.Rframe(arr, I64(0)), I64(0)), unfold(kO, ex.Rframe(arr, I64(0)), I64(0))}, inv(I64(0))},
		{"count-inv-step", stepHyps, inv(k1)},
		{"count-final", []*Term{inv(k), pb(kA, fk, dk), pb(kO, fk, dk), wf(k, I64(0)), wf(k, Sub(dk, I64(1)))}, ex.countLemma(arr, k)},
	}
}

// dvLemmaObligations: the step case of the stickiness lemma of the saturating decimal value:
// DV(k,b) == 2^64 and data[b] a digit imply DV(k,b+1) == 2^64 (base case is trivial: a == b).
func dvLemmaObligations(r *Runner) []*LedgerEntry {
	arr := Var("lemma.arr", ArraySort(BV(64), BV(8)))
	k := Var("lemma.k", BV(64))
	b := Var("lemma.b", BV(64))
	sat := BVC(128, satLimit)
	dv := func(a *Term) *Term { return App("DV$lemma.arr", BV(128), k, a) }
	d := ZeroExt(120, Sub(Select(arr, b), BVI(8, '0')))
	nx := Add(Mul(dv(b), BVI(128, 10)), d)
	stepAx := Implies(And(Sle(k, b), isDigitTerm(Select(arr, b))), Eq(dv(Add(b, I64(1))), Ite(Ule(sat, nx), sat, nx)))
	q := &Query{Name: "spec/DVsticky/step", Hyps: []*Term{stepAx, Sle(k, b), isDigitTerm(Select(arr, b)), Eq(dv(b), sat)}, Goals: []*Term{Eq(dv(Add(b, I64(1))), sat)}}
	body, _ := q.Build(0)
	res := r.eng.pool.Decide(body, nil, r.quickMs, r.slowMs)
	e := &LedgerEntry{Name: "spec/DVsticky/step", Kind: "lemma", Fn: "spec", Instances: 1, Solver: res.Solver, Secs: res.Secs, Status: "discharged"}
	if res.Status != "unsat" {
		e.Status = "failed"
		e.Detail = "solver answered " + res.Status
		e.failQ, e.failRes = q, res
	}
	return []*LedgerEntry{e}
}

// globalStoreScan: frame condition over EVERY function of the module's packages (not only those
// under contract): no instruction stores into a package-level variable or into memory reached
// through one (init functions, which run before main, excepted).
func globalStoreScan(eng *Engine) []*LedgerEntry {
	var out []*LedgerEntry
	var fns []*ssa.Function
	seen := map[*ssa.Function]bool{}
	var addFn func(f *ssa.Function)
	addFn = func(f *ssa.Function) {
		if f == nil || seen[f] || len(f.Blocks) == 0 {
			return
		}
		seen[f] = true
		fns = append(fns, f)
		for _, an := range f.AnonFuncs {
			addFn(an)
		}
	}
	for _, sp := range eng.spkgs {
		for _, m := range sp.Members {
			switch x := m.(type) {
			case *ssa.Function:
				addFn(x)
			case *ssa.Type:
				for _, T := range []types.Type{x.Type(), types.NewPointer(x.Type())} {
					ms := eng.prog.MethodSets.MethodSet(T)
					for k := 0; k < ms.Len(); k++ {
						addFn(eng.prog.MethodValue(ms.At(k)))
					}
				}
			}
		}
	}
	sort.Slice(fns, func(i, j int) bool { return fns[i].String() < fns[j].String() })
	var origin func(v ssa.Value, depth int) *ssa.Global
	origin = func(v ssa.Value, depth int) *ssa.Global {
		if depth > 12 {
			return nil
		}
		switch x := v.(type) {
		case *ssa.Global:
			return x
		case *ssa.FieldAddr:
			return origin(x.X, depth+1)
		case *ssa.IndexAddr:
			return origin(x.X, depth+1)
		case *ssa.Slice:
			return origin(x.X, depth+1)
		case *ssa.UnOp:
			if x.Op == token.MUL {
				return origin(x.X, depth+1)
			}
		case *ssa.ChangeType:
			return origin(x.X, depth+1)
		case *ssa.Phi:
			for _, e := range x.Edges {
				if g := origin(e, depth+1); g != nil {
					return g
				}
			}
		}
		return nil
	}
	for _, f := range fns {
		name := f.String()
		if f.Name() == "init" || strings.Contains(f.Name(), "init#") || f.Synthetic != "" {
			continue
		}
		pos := eng.prog.Fset.Position(f.Pos())
		if strings.HasSuffix(pos.Filename, "_test.go") {
			continue
		}
		e := &LedgerEntry{Name: "frames/" + strings.TrimPrefix(name, "github.com/willabides/rjson") + "/no-store-to-package-level-memory", Kind: "frame", Fn: f.Name(), Status: "discharged", Solver: "ssa-frame-scan"}
		for _, b := range f.Blocks {
			for _, ins := range b.Instrs {
				var addr ssa.Value
				switch x := ins.(type) {
				case *ssa.Store:
					addr = x.Addr
				case *ssa.MapUpdate:
					addr = x.Map
				}
				if call, ok := ins.(ssa.CallInstruction); ok {
					// package-level memory handed to a callee as a writable slice or pointer (e.g.
					// utf8.EncodeRune(scratch[:], r), copy(scratch[:], ...), append(scratch[:0], ...)):
					// the callee may write it. Reading builtins and value (non-pointer) arguments are fine.
					cc := call.Common()
					if b, isB := cc.Value.(*ssa.Builtin); isB && (b.Name() == "len" || b.Name() == "cap") {
						continue
					}
					for k, a := range cc.Args {
						switch a.Type().Underlying().(type) {
						case *types.Slice, *types.Pointer:
						default:
							continue
						}
						if b, isB := cc.Value.(*ssa.Builtin); isB && (b.Name() == "copy" || b.Name() == "append") && k > 0 {
							continue // source operand of copy / appended elements: read only
						}
						e.Instances++
						if g := origin(a, 0); g != nil {
							e.Status = "failed"
							e.Detail = fmt.Sprintf("package-level variable %s is passed as writable memory to a call at %s", g.Name(), eng.prog.Fset.Position(ins.Pos()))
						}
					}
					continue
				}
				if addr == nil {
					continue
				}
				e.Instances++
				if g := origin(addr, 0); g != nil {
					e.Status = "failed"
					e.Detail = fmt.Sprintf("store into package-level variable %s at %s", g.Name(), eng.prog.Fset.Position(ins.Pos()))
				}
			}
		}
		out = append(out, e)
	}
	return out
}

// Bounded stand-ins (labelled bounded, never counted as proved) for parts of a claimed property that
// no discharged contract covers. Each runs the property's replay oracle over its whole search space
// (enumeration over an alphabet up to a length, a corpus of structured documents, their truncations
// and single-byte mutations, family-specific seeds) against the real code.
//
//	C06: decoded content of string tokens vs the RFC 8259 decoding (rjvSpecDecodeString, itself
//	     compared with encoding/json on 1.1M contents in go test);
//	C04: ReadFloat64 vs strconv.ParseFloat bit for bit on boundary literals and 3M pseudo-random ones
//	     (stands in for the unchecked argument that the decision structure rounds correctly);
//	C19: zero heap allocations (testing.AllocsPerRun) of the scalar readers and of SkipValue /
//	     SkipValueFast / Valid / HandleArrayValues / HandleObjectValues with a warmed Buffer and
//	     ReadStringBytes / UnescapeStringContent with spare capacity.
func boundedStandIn(r *Runner, prop, fn, what string, alpha []byte) []*LedgerEntry {
	return boundedStandInKind(r, prop, fn, what, alpha, "bounded")
}

// boundedStandInKind: familyKind is the obligation kind that selects the replay family (C16 chooses
// its family by kind); the ledger entry itself is always of kind "bounded".
func boundedStandInKind(r *Runner, prop, fn, what string, alpha []byte, familyKind string) []*LedgerEntry {
	p := &Property{ID: prop}
	e := &LedgerEntry{Name: "bounded/" + prop + "/" + what, Kind: familyKind, Fn: fn, Instances: 1, alphaOverride: alpha}
	defer func() { e.Kind = "bounded" }()
	rt, ok := concreteReplay(r.eng, p, e, nil, filepath.Join(outDir(), "replays", prop, "bounded_"+what))
	switch {
	case !ok:
		e.Status, e.Detail = "undecided", "no replay family"
	case rt.Reproduced || rt.File != "":
		e.Status = "failed"
		e.Detail = "failing input found on the real code: " + rt.Input
		e.replayInput = rt.File
	case !strings.Contains(rt.Output, "RJV-REPLAY-NONE"):
		e.Status, e.Detail = "undecided", "the bounded search did not run: "+tail(rt.Output, 400)
	default:
		e.Status = "discharged"
		e.Solver = "bounded-enumeration"
		i := strings.Index(rt.Output, "RJV-REPLAY-NONE")
		e.Detail = rt.Input + "; " + strings.TrimSpace(strings.SplitN(rt.Output[i:], "\n", 2)[0])
	}
	return []*LedgerEntry{e}
}
