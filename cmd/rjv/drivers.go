package main

import (
	"fmt"
	"go/token"
	"go/types"
	"sort"
	"strings"

	"golang.org/x/tools/go/ssa"
)

// Proof drivers beyond plain contracts (spec simulation, relational, frames, tables) and the
// concrete replay of counterexamples.

type replayTest struct {
	File, Cmd, Output, Input string
	Reproduced               bool
}

func configureDriver(eng *Engine, j Job, opts *ProofOpts) {}

func runExtras(r *Runner, p *Property, tier string) ([]*LedgerEntry, []string) {
	var out []*LedgerEntry
	var broken []string
	for _, x := range p.Extra {
		switch x {
		case "spec-lemmas":
			out = append(out, specLemmaObligations(r)...)
		case "dv-lemmas":
			out = append(out, dvLemmaObligations(r)...)
		case "fp-equiv":
			out = append(out, r.equivObligations()...)
		case "fp-tables":
			out = append(out, r.eng.fpTableObligations()...)
		case "global-store-scan":
			out = append(out, globalStoreScan(r.eng)...)
		}
	}
	return out, broken
}

// specLemmaObligations: base and step of the absorption lemma, for both spec variants
// (with and without the nesting limit), as quantifier-free obligations over an arbitrary run R.
func specLemmaObligations(r *Runner) []*LedgerEntry {
	var out []*LedgerEntry
	tab := specTab()
	for _, v := range []struct {
		name  string
		limit int64
	}{{"value", 10000}, {"travarr", -1}, {"travobj", -1}} {
		ex := &Exec{eng: r.eng, simVariant: v.name, simLimit: v.limit}
		arr := Var("lemma.arr", ArraySort(BV(64), BV(8)))
		a := Var("lemma.a", BV(64))
		n := Var("lemma.n", BV(64))
		absorbed := func(k *Term) *Term {
			qa := ex.Rq(arr, a)
			return And(Eq(ex.Rq(arr, k), qa), Eq(ex.Rend(arr, k), ex.Rend(arr, a)))
		}
		qa := ex.Rq(arr, a)
		hyp := And(Sle(I64(0), a), Or(Eq(qa, q8(tab.Dead())), Eq(qa, q8(tab.Done()))))
		cases := []struct {
			name string
			hyps []*Term
			goal *Term
		}{
			{"base", []*Term{hyp}, absorbed(a)},
			{"step", []*Term{hyp, Sle(a, n), Slt(n, I64(1<<62)), absorbed(n), ex.stepAxiom(arr, n)}, absorbed(Add(n, I64(1)))},
		}
		if v.name == "value" {
			// ws-prefix lemma, step: in the initial configuration a whitespace byte changes nothing
			before := q8(tab.ID(rjvSpecLocal{Ctl: rjvSpecBefore, Ctx: rjvSpecCtxTop}))
			isws := byteIn(Select(arr, n), ' ', '\t', '\r', '\n')
			cases = append(cases, struct {
				name string
				hyps []*Term
				goal *Term
			}{"wsprefix-step", []*Term{Eq(ex.Rq(arr, n), before), Eq(ex.Rdepth(arr, n), I64(0)), isws, ex.stepAxiom(arr, n)},
				And(Eq(ex.Rq(arr, Add(n, I64(1))), before), Eq(ex.Rdepth(arr, Add(n, I64(1))), I64(0)))})
		}
		for _, c := range cases {
			q := &Query{Name: "spec/absorb/" + c.name, Hyps: c.hyps, Goals: []*Term{c.goal}}
			body, _ := q.Build(0)
			res := r.eng.pool.Decide(body, nil, r.quickMs, r.slowMs)
			e := &LedgerEntry{Name: "spec[" + v.name + "]/lemma/" + c.name, Kind: "lemma", Fn: "spec", Instances: 1, Solver: res.Solver, Secs: res.Secs, Status: "discharged"}
			if res.Status != "unsat" {
				e.Status = "failed"
				if res.Status != "sat" {
					e.Status = "undecided"
				}
				e.Detail = "solver answered " + res.Status
				e.failQ = q
				e.failRes = res
			}
			out = append(out, e)
		}
	}
	return out
}


// dvLemmaObligations: the step case of the stickiness lemma of the saturating decimal value:
// DV(k,b) == 2^64 and data[b] a digit imply DV(k,b+1) == 2^64 (base case is trivial: a == b).
func dvLemmaObligations(r *Runner) []*LedgerEntry {
	arr := Var("lemma.arr", ArraySort(BV(64), BV(8)))
	k := Var("lemma.k", BV(64))
	b := Var("lemma.b", BV(64))
	sat := BVC(128, satLimit)
	dv := func(a *Term) *Term { return App("DV$lemma.arr", BV(128), k, a) }
	d := ZeroExt(120, Sub(Select(arr, b), BVI(8, '0')))
	nx := Add(Mul(dv(b), BVI(128, 10)), d)
	stepAx := Implies(And(Sle(k, b), isDigitTerm(Select(arr, b))), Eq(dv(Add(b, I64(1))), Ite(Ule(sat, nx), sat, nx)))
	q := &Query{Name: "spec/DVsticky/step", Hyps: []*Term{stepAx, Sle(k, b), isDigitTerm(Select(arr, b)), Eq(dv(b), sat)}, Goals: []*Term{Eq(dv(Add(b, I64(1))), sat)}}
	body, _ := q.Build(0)
	res := r.eng.pool.Decide(body, nil, r.quickMs, r.slowMs)
	e := &LedgerEntry{Name: "spec/DVsticky/step", Kind: "lemma", Fn: "spec", Instances: 1, Solver: res.Solver, Secs: res.Secs, Status: "discharged"}
	if res.Status != "unsat" {
		e.Status = "failed"
		e.Detail = "solver answered " + res.Status
		e.failQ, e.failRes = q, res
	}
	return []*LedgerEntry{e}
}

// globalStoreScan: frame condition over EVERY function of the module's packages (not only those
// under contract): no instruction stores into a package-level variable or into memory reached
// through one (init functions, which run before main, excepted).
func globalStoreScan(eng *Engine) []*LedgerEntry {
	var out []*LedgerEntry
	var fns []*ssa.Function
	seen := map[*ssa.Function]bool{}
	var addFn func(f *ssa.Function)
	addFn = func(f *ssa.Function) {
		if f == nil || seen[f] || len(f.Blocks) == 0 {
			return
		}
		seen[f] = true
		fns = append(fns, f)
		for _, an := range f.AnonFuncs {
			addFn(an)
		}
	}
	for _, sp := range eng.spkgs {
		for _, m := range sp.Members {
			switch x := m.(type) {
			case *ssa.Function:
				addFn(x)
			case *ssa.Type:
				for _, T := range []types.Type{x.Type(), types.NewPointer(x.Type())} {
					ms := eng.prog.MethodSets.MethodSet(T)
					for k := 0; k < ms.Len(); k++ {
						addFn(eng.prog.MethodValue(ms.At(k)))
					}
				}
			}
		}
	}
	sort.Slice(fns, func(i, j int) bool { return fns[i].String() < fns[j].String() })
	var origin func(v ssa.Value, depth int) *ssa.Global
	origin = func(v ssa.Value, depth int) *ssa.Global {
		if depth > 12 {
			return nil
		}
		switch x := v.(type) {
		case *ssa.Global:
			return x
		case *ssa.FieldAddr:
			return origin(x.X, depth+1)
		case *ssa.IndexAddr:
			return origin(x.X, depth+1)
		case *ssa.Slice:
			return origin(x.X, depth+1)
		case *ssa.UnOp:
			if x.Op == token.MUL {
				return origin(x.X, depth+1)
			}
		case *ssa.ChangeType:
			return origin(x.X, depth+1)
		case *ssa.Phi:
			for _, e := range x.Edges {
				if g := origin(e, depth+1); g != nil {
					return g
				}
			}
		}
		return nil
	}
	for _, f := range fns {
		name := f.String()
		if f.Name() == "init" || strings.Contains(f.Name(), "init#") || f.Synthetic != "" {
			continue
		}
		pos := eng.prog.Fset.Position(f.Pos())
		if strings.HasSuffix(pos.Filename, "_test.go") {
			continue
		}
		e := &LedgerEntry{Name: "frames/" + strings.TrimPrefix(name, "github.com/willabides/rjson") + "/no-store-to-package-level-memory", Kind: "frame", Fn: f.Name(), Status: "discharged", Solver: "ssa-frame-scan"}
		for _, b := range f.Blocks {
			for _, ins := range b.Instrs {
				var addr ssa.Value
				switch x := ins.(type) {
				case *ssa.Store:
					addr = x.Addr
				case *ssa.MapUpdate:
					addr = x.Map
				}
				if addr == nil {
					continue
				}
				e.Instances++
				if g := origin(addr, 0); g != nil {
					e.Status = "failed"
					e.Detail = fmt.Sprintf("store into package-level variable %s at %s", g.Name(), eng.prog.Fset.Position(ins.Pos()))
				}
			}
		}
		out = append(out, e)
	}
	return out
}
