package main

// Symbolic values, symbolic state and the go/ssa (NaiveForm) instruction semantics.

import (
	"fmt"
	"go/constant"
	"go/token"
	"go/types"
	"math/big"
	"strings"
	"sync"

	"golang.org/x/tools/go/ssa"
)

var (
	ErrSort   = UnintSort("Err")
	IfaceSort = UnintSort("Iface")
	NilErr    = Var("nil.err", ErrSort)
	NilIface  = Var("nil.iface", IfaceSort)
)

const maxAllocLog = 48 // slice lengths/capacities are assumed <= 2^48 (Go runtime maxAlloc on amd64)

type Value interface{}

type Region struct {
	ID    int
	Name  string
	Elem  *Sort
	Kind  string // input | param | fresh | string | nil
	Input bool
	Copy  bool // created by a []byte -> string conversion (owns its memory)
}

type SliceV struct {
	Reg           *Region
	Off, Len, Cap *Term
	ElemT         types.Type
}

type StringV struct {
	Reg      *Region
	Off, Len *Term
}

type Object struct {
	Name string
	T    types.Type
}

type PathElem struct {
	Field int
	Index *Term // nil for field access
}

type Place struct {
	Root interface{} // *ssa.Alloc | *Region | *Object | *ssa.Global
	Path []PathElem
}

type PtrV struct {
	Nil *Term
	P   Place
	T   types.Type // pointee type
}

type StructV struct {
	Fields []Value
	T      *types.Struct
}

type ArrayV struct {
	Arr   *Term
	Len   int64
	ElemT types.Type
}

type TupleV []Value

type ClosureV struct {
	Fn       *ssa.Function
	Bindings []Value
}

type OpaqueV struct {
	T    types.Type
	Name string
}

type MapV struct {
	Obj *Object
	Nil *Term
}

type Oblig struct {
	Name  string
	Kind  string
	Fn    string
	NHyp  int // number of path-condition entries that are hypotheses for this goal
	Hyps  []*Term
	Goal  *Term
	Pos   token.Pos
	Trace string
	Extra map[string]string
}

type Event struct {
	Kind string // invoke | alloc | store | call
	Site string
	Args []Value
	Res  []Value
	Info map[string]*Term
	NPC  int
	Pos  token.Pos
}

type State struct {
	store         map[interface{}]Value
	regs          map[ssa.Value]Value
	pc            []*Term
	obls          []*Oblig
	events        []*Event
	prev          *ssa.BasicBlock
	trace         []int
	defers        []ClosureV
	galloc        *Term // ghost allocation counter (bytes), 64-bit saturating is not needed: costs are bounded by assumption
	ghost         map[string]*Term
	qfacts        []*QFact
	dead          bool
	paramOverride map[string]Value
	branches      []*Term // branch decisions only (subset of pc), for the relational coverage VCs
}

func (s *State) clone() *State {
	n := &State{prev: s.prev, galloc: s.galloc, dead: s.dead, paramOverride: s.paramOverride}
	n.store = make(map[interface{}]Value, len(s.store))
	for k, v := range s.store {
		n.store[k] = v
	}
	n.regs = make(map[ssa.Value]Value, len(s.regs))
	for k, v := range s.regs {
		n.regs[k] = v
	}
	n.pc = append([]*Term{}, s.pc...)
	n.obls = append([]*Oblig{}, s.obls...)
	n.events = append([]*Event{}, s.events...)
	n.trace = append([]int{}, s.trace...)
	n.defers = append([]ClosureV{}, s.defers...)
	n.qfacts = append([]*QFact{}, s.qfacts...)
	n.branches = append([]*Term{}, s.branches...)
	n.ghost = make(map[string]*Term, len(s.ghost))
	for k, v := range s.ghost {
		n.ghost[k] = v
	}
	return n
}

func (s *State) assume(t *Term) {
	if t == True {
		return
	}
	if t == False {
		s.dead = true
	}
	s.pc = append(s.pc, t)
}

var regionSeq int

func newRegion(name string, elem *Sort, kind string) *Region {
	regionSeq++
	return &Region{ID: regionSeq, Name: fmt.Sprintf("%s#%d", name, regionSeq), Elem: elem, Kind: kind, Input: kind == "input"}
}

var nilRegions = map[*Sort]*Region{}

func nilRegion(elem *Sort) *Region {
	if r, ok := nilRegions[elem]; ok {
		return r
	}
	r := &Region{ID: -1, Name: "nilregion." + fmt.Sprint(len(nilRegions)), Elem: elem, Kind: "nil"}
	nilRegions[elem] = r
	return r
}

// ---- types ----

func sortOf(t types.Type) *Sort {
	switch u := t.Underlying().(type) {
	case *types.Basic:
		switch u.Kind() {
		case types.Bool, types.UntypedBool:
			return BoolSort
		case types.Int, types.Uint, types.Int64, types.Uint64, types.Uintptr, types.UntypedInt:
			return BV(64)
		case types.Int32, types.Uint32, types.UntypedRune:
			return BV(32)
		case types.Int16, types.Uint16:
			return BV(16)
		case types.Int8, types.Uint8:
			return BV(8)
		case types.Float64, types.UntypedFloat:
			return BV(64) // IEEE bits; operations are handled separately
		case types.Float32:
			return BV(32)
		}
	case *types.Interface:
		if isErrorType(t) {
			return ErrSort
		}
		return IfaceSort
	}
	return nil
}

func isErrorType(t types.Type) bool {
	return types.Identical(t, types.Universe.Lookup("error").Type())
}

func isSigned(t types.Type) bool {
	if b, ok := t.Underlying().(*types.Basic); ok {
		return b.Info()&types.IsUnsigned == 0 && b.Info()&types.IsInteger != 0
	}
	return false
}

func isFloat(t types.Type) bool {
	if b, ok := t.Underlying().(*types.Basic); ok {
		return b.Info()&types.IsFloat != 0
	}
	return false
}

type Exec struct {
	eng   *Engine
	fn    *ssa.Function
	fc    *FuncContract
	mode  string // hostile | wellbehaved
	cutAt map[*ssa.BasicBlock]bool
	// entry values of params (shared by all paths of this function)
	params       map[string]Value
	paramObj     map[string]*Object
	inputReg     map[*Region]bool
	unsup        []string
	freshTag     string
	maxPaths     int
	npaths       int
	specHook     SpecHook
	handlerHook  func(st *State, ev *Event, args []Value)
	cells        map[string]*ssa.Alloc
	allocs       []*ssa.Alloc
	mutable      map[*ssa.Alloc]bool
	entryFinal   *State
	entryHeap    *State
	sconsts      []int64
	retMain      map[int64]bool
	retSub       map[int64]bool
	simVariant   string
	simLimit     int64
	simFast      bool
	simNum       bool
	simOut       bool
	simEnd       *Term
	relMode      bool
	allocMode    bool
	sharedTables map[string]bool
	sharedLens   map[string]int64
	sharedRegs   map[string]*Region
	sharedRegMu  sync.Mutex
	// equivalence proofs: callees are the same deterministic (uninterpreted) function on both sides
	equivCalls   map[string]string // callee key -> canonical name
	structTables map[string]*TableV
}

// SpecHook lets a proof driver add hypotheses when the path reads input bytes or jumps.
type SpecHook interface {
	OnRead(st *State, reg *Region, idx *Term)
}

func (ex *Exec) unsupported(st *State, what string, pos token.Pos) {
	msg := fmt.Sprintf("%s at %s", what, ex.fn.Prog.Fset.Position(pos))
	for _, u := range ex.unsup {
		if u == msg {
			return
		}
	}
	ex.unsup = append(ex.unsup, msg)
}

func (ex *Exec) fresh(name string, s *Sort) *Term {
	return Fresh(name, s)
}

// freshValue builds an unconstrained symbolic value of a Go type. Constraints that the type
// itself guarantees (slice header sanity) are assumed on st.
func (ex *Exec) freshValue(st *State, name string, t types.Type, regionKind string) Value {
	switch u := t.Underlying().(type) {
	case *types.Basic:
		if u.Kind() == types.String {
			r := newRegion(name, BV(8), "string")
			ln := ex.fresh(name+".len", BV(64))
			st.assume(And(Sle(I64(0), ln), Sle(ln, I64(1<<maxAllocLog))))
			st.store[r] = &ArrayV{Arr: ex.fresh(name+".bytes", ArraySort(BV(64), BV(8)))}
			return &StringV{Reg: r, Off: I64(0), Len: ln}
		}
		s := sortOf(t)
		if s == nil {
			return &OpaqueV{T: t, Name: name}
		}
		return ex.fresh(name, s)
	case *types.Slice:
		es := sortOf(u.Elem())
		if es == nil {
			return &OpaqueV{T: t, Name: name}
		}
		r := newRegion(name, es, regionKind)
		st.store[r] = &ArrayV{Arr: ex.fresh(name+".arr", ArraySort(BV(64), es))}
		ln := ex.fresh(name+".len", BV(64))
		cp := ex.fresh(name+".cap", BV(64))
		st.assume(And(Sle(I64(0), ln), Sle(ln, cp), Sle(cp, I64(1<<maxAllocLog))))
		return &SliceV{Reg: r, Off: I64(0), Len: ln, Cap: cp, ElemT: u.Elem()}
	case *types.Pointer:
		obj := &Object{Name: name, T: u.Elem()}
		st.store[obj] = ex.freshValue(st, name+".*", u.Elem(), "param")
		return &PtrV{Nil: ex.fresh(name+".isnil", BoolSort), P: Place{Root: obj}, T: u.Elem()}
	case *types.Struct:
		sv := &StructV{T: u}
		for i := 0; i < u.NumFields(); i++ {
			sv.Fields = append(sv.Fields, ex.freshValue(st, name+"."+u.Field(i).Name(), u.Field(i).Type(), regionKind))
		}
		return sv
	case *types.Array:
		es := sortOf(u.Elem())
		if es == nil {
			return &OpaqueV{T: t, Name: name}
		}
		return &ArrayV{Arr: ex.fresh(name+".arr", ArraySort(BV(64), es)), Len: u.Len(), ElemT: u.Elem()}
	case *types.Interface:
		return ex.fresh(name, sortOf(t))
	case *types.Map:
		return &OpaqueV{T: t, Name: name}
	case *types.Signature:
		return &OpaqueV{T: t, Name: name}
	}
	return &OpaqueV{T: t, Name: name}
}

func (ex *Exec) zeroValue(st *State, t types.Type) Value {
	switch u := t.Underlying().(type) {
	case *types.Basic:
		if u.Kind() == types.String {
			return &StringV{Reg: nilRegion(BV(8)), Off: I64(0), Len: I64(0)}
		}
		s := sortOf(t)
		if s == nil {
			return &OpaqueV{T: t, Name: "zero"}
		}
		if s.Kind == KBool {
			return False
		}
		return BVI(s.W, 0)
	case *types.Slice:
		es := sortOf(u.Elem())
		if es == nil {
			return &OpaqueV{T: t, Name: "zero"}
		}
		return &SliceV{Reg: nilRegion(es), Off: I64(0), Len: I64(0), Cap: I64(0), ElemT: u.Elem()}
	case *types.Pointer:
		return &PtrV{Nil: True, T: u.Elem()}
	case *types.Struct:
		sv := &StructV{T: u}
		for i := 0; i < u.NumFields(); i++ {
			sv.Fields = append(sv.Fields, ex.zeroValue(st, u.Field(i).Type()))
		}
		return sv
	case *types.Array:
		es := sortOf(u.Elem())
		if es == nil {
			return &OpaqueV{T: t, Name: "zero"}
		}
		var z *Term
		if es.Kind == KBool {
			z = False
		} else {
			z = BVI(es.W, 0)
		}
		return &ArrayV{Arr: ConstArray(ArraySort(BV(64), es), z), Len: u.Len(), ElemT: u.Elem()}
	case *types.Interface:
		if isErrorType(t) {
			return NilErr
		}
		return NilIface
	}
	return &OpaqueV{T: t, Name: "zero"}
}

// ---- constants ----

func (ex *Exec) constValue(st *State, c *ssa.Const) Value {
	t := c.Type()
	if c.Value == nil {
		return ex.zeroValue(st, t)
	}
	switch u := t.Underlying().(type) {
	case *types.Basic:
		switch {
		case u.Info()&types.IsBoolean != 0:
			return BoolC(constant.BoolVal(c.Value))
		case u.Info()&types.IsInteger != 0:
			s := sortOf(t)
			v, _ := new(big.Int).SetString(c.Value.ExactString(), 10)
			if v == nil {
				iv := constant.ToInt(c.Value)
				v, _ = new(big.Int).SetString(iv.ExactString(), 10)
			}
			return BVC(s.W, v)
		case u.Info()&types.IsString != 0:
			str := constant.StringVal(c.Value)
			return ex.stringConst(st, str)
		case u.Info()&types.IsFloat != 0:
			f, _ := constant.Float64Val(c.Value)
			return BVC(64, new(big.Int).SetUint64(float64bits(f)))
		}
	}
	return &OpaqueV{T: t, Name: "const"}
}

func (ex *Exec) stringConst(st *State, str string) *StringV {
	r := newRegion("strconst", BV(8), "string")
	arr := ConstArray(ArraySort(BV(64), BV(8)), BVI(8, 0))
	for i := 0; i < len(str); i++ {
		arr = Store(arr, I64(int64(i)), BVI(8, int64(str[i])))
	}
	st.store[r] = &ArrayV{Arr: arr}
	return &StringV{Reg: r, Off: I64(0), Len: I64(int64(len(str)))}
}

// ---- places ----

func (ex *Exec) load(st *State, p Place) Value {
	v, ok := st.store[p.Root]
	if !ok {
		switch r := p.Root.(type) {
		case *ssa.Global:
			v = ex.eng.globalValue(ex, st, r)
			st.store[p.Root] = v
		case *Region:
			v = &ArrayV{Arr: ex.fresh(r.Name+".arr", ArraySort(BV(64), r.Elem))}
			st.store[p.Root] = v
		default:
			panic(fmt.Sprintf("load from unknown root %T %v", p.Root, p.Root))
		}
	}
	for pi, e := range p.Path {
		switch x := v.(type) {
		case *TableV:
			// row of a shared struct table: the next path element selects the field
			if e.Index != nil && pi+1 < len(p.Path) && p.Path[pi+1].Index == nil {
				return ex.tableField(st, x, e.Index, p.Path[pi+1].Field)
			}
			return &OpaqueV{T: nil, Name: "tbl." + x.Name + ".row"}
		case *StructV:
			v = x.Fields[e.Field]
		case *ArrayV:
			sel := Select(x.Arr, e.Index)
			if x.ElemT != nil {
				if at, ok := x.ElemT.Underlying().(*types.Array); ok {
					v = &ArrayV{Arr: sel, Len: at.Len(), ElemT: at.Elem()}
					continue
				}
			}
			v = sel
		case *OpaqueV:
			return &OpaqueV{T: nil, Name: x.Name + ".sub"}
		default:
			panic(fmt.Sprintf("load path through %T", v))
		}
	}
	return v
}

func (ex *Exec) storeTo(st *State, p Place, val Value) {
	if len(p.Path) == 0 {
		st.store[p.Root] = val
		return
	}
	root := ex.load(st, Place{Root: p.Root})
	st.store[p.Root] = updatePath(root, p.Path, val)
}

func updatePath(v Value, path []PathElem, val Value) Value {
	if len(path) == 0 {
		return val
	}
	e := path[0]
	switch x := v.(type) {
	case *StructV:
		n := &StructV{T: x.T, Fields: append([]Value{}, x.Fields...)}
		n.Fields[e.Field] = updatePath(x.Fields[e.Field], path[1:], val)
		return n
	case *ArrayV:
		if len(path) != 1 {
			panic("nested array path")
		}
		return &ArrayV{Arr: Store(x.Arr, e.Index, val.(*Term)), Len: x.Len, ElemT: x.ElemT}
	case *OpaqueV:
		return x
	}
	panic(fmt.Sprintf("updatePath through %T", v))
}

// ---- obligations ----

func (ex *Exec) oblige(st *State, kind, name string, goal *Term, pos token.Pos) {
	if goal == True {
		return
	}
	o := &Oblig{Name: name, Kind: kind, Fn: ex.fn.Name(), NHyp: len(st.pc), Goal: goal, Pos: pos}
	st.obls = append(st.obls, o)
	// after checking, the property may be assumed on the rest of the path (a goal that is
	// plainly false is not assumed: the path goes on so that the failure is reported)
	if goal != False {
		st.assume(goal)
	}
}

func (ex *Exec) siteName(pos token.Pos, what string) string {
	p := ex.fn.Prog.Fset.Position(pos)
	return fmt.Sprintf("%s@L%d", what, p.Line)
}

// ---- instruction semantics ----

func (ex *Exec) val(st *State, v ssa.Value) Value {
	switch x := v.(type) {
	case *ssa.Const:
		return ex.constValue(st, x)
	case *ssa.Global:
		return &PtrV{Nil: False, P: Place{Root: x}, T: x.Type().(*types.Pointer).Elem()}
	case *ssa.Function:
		return &ClosureV{Fn: x}
	case *ssa.Parameter:
		if ov, ok := st.paramOverride[x.Name()]; ok {
			return ov
		}
		if pv, ok := ex.params[x.Name()]; ok {
			return pv
		}
	case *ssa.FreeVar:
		if r, ok := st.regs[v]; ok {
			return r
		}
	case *ssa.Builtin:
		return &OpaqueV{Name: "builtin:" + x.Name()}
	}
	if r, ok := st.regs[v]; ok {
		return r
	}
	// live-in register at a cut point: unconstrained
	nv := ex.freshValue(st, "livein."+v.Name(), v.Type(), "fresh")
	st.regs[v] = nv
	return nv
}

func (ex *Exec) term(st *State, v ssa.Value) *Term {
	x := ex.val(st, v)
	t, ok := x.(*Term)
	if !ok {
		panic(fmt.Sprintf("%s: expected scalar for %s (%s), got %T", ex.fn.Name(), v.Name(), v.Type(), x))
	}
	return t
}

// execInstr executes a non-terminator instruction; it returns the successor states
// (more than one when the instruction forks, e.g. append in place vs. grow).
func (ex *Exec) execInstr(st *State, ins ssa.Instruction) []*State {
	switch i := ins.(type) {
	case *ssa.Alloc:
		st.store[i] = ex.zeroValue(st, i.Type().(*types.Pointer).Elem())
		st.regs[i] = &PtrV{Nil: False, P: Place{Root: i}, T: i.Type().(*types.Pointer).Elem()}
		if i.Heap && !allocStaysLocal(i) {
			ex.allocEvent(st, "new", I64(sizeofType(i.Type().(*types.Pointer).Elem())), i.Pos())
		}
	case *ssa.Store:
		pv, ok := ex.val(st, i.Addr).(*PtrV)
		if !ok {
			ex.unsupported(st, "store through non-pointer", i.Pos())
			return []*State{st}
		}
		ex.oblige(st, "nil-deref", ex.siteName(i.Pos(), "store"), Not(pv.Nil), i.Pos())
		ex.frameCheck(st, pv.P, i.Pos())
		sval := ex.val(st, i.Val)
		if r, ok := pv.P.Root.(*Region); ok && !r.Input {
			if t, ok := sval.(*Term); ok {
				st.events = append(st.events, &Event{Kind: "store-elem", Site: r.Name, Info: map[string]*Term{"val": t}, NPC: len(st.pc), Pos: i.Pos()})
			}
		}
		ex.storeTo(st, pv.P, sval)
	case *ssa.UnOp:
		st.regs[i] = ex.unop(st, i)
	case *ssa.BinOp:
		st.regs[i] = ex.binop(st, i)
	case *ssa.Phi:
		for k, pred := range i.Block().Preds {
			if pred == st.prev {
				st.regs[i] = ex.val(st, i.Edges[k])
				return []*State{st}
			}
		}
		st.regs[i] = ex.freshValue(st, "phi."+i.Name(), i.Type(), "fresh")
	case *ssa.Convert:
		st.regs[i] = ex.convert(st, i)
	case *ssa.ChangeType:
		st.regs[i] = ex.val(st, i.X)
	case *ssa.ChangeInterface:
		v := ex.val(st, i.X)
		if t, ok := v.(*Term); ok {
			// error <-> interface{}: the two interface kinds have different sorts in the VC language
			switch {
			case t.Sort == ErrSort && !isErrorType(i.Type()):
				f := App("iface.of.err", IfaceSort, t)
				st.assume(Eq(Eq(f, NilIface), Eq(t, NilErr)))
				v = f
			case t.Sort == IfaceSort && isErrorType(i.Type()):
				f := App("err.of.iface", ErrSort, t)
				st.assume(Eq(Eq(f, NilErr), Eq(t, NilIface)))
				v = f
			}
		}
		st.regs[i] = v
	case *ssa.MakeInterface:
		st.regs[i] = ex.makeInterface(st, i)
	case *ssa.Extract:
		tv, ok := ex.val(st, i.Tuple).(TupleV)
		if !ok {
			st.regs[i] = ex.freshValue(st, "extract", i.Type(), "fresh")
		} else {
			st.regs[i] = tv[i.Index]
		}
	case *ssa.IndexAddr:
		return ex.indexAddr(st, i)
	case *ssa.Index:
		return ex.index(st, i)
	case *ssa.FieldAddr:
		pv, ok := ex.val(st, i.X).(*PtrV)
		if !ok {
			ex.unsupported(st, "fieldaddr on non-pointer", i.Pos())
			st.regs[i] = ex.freshValue(st, "fieldaddr", i.Type(), "fresh")
			return []*State{st}
		}
		ex.oblige(st, "nil-deref", ex.siteName(i.Pos(), "field"), Not(pv.Nil), i.Pos())
		np := Place{Root: pv.P.Root, Path: append(append([]PathElem{}, pv.P.Path...), PathElem{Field: i.Field})}
		ft := pv.T.Underlying().(*types.Struct).Field(i.Field).Type()
		st.regs[i] = &PtrV{Nil: False, P: np, T: ft}
	case *ssa.Field:
		sv, ok := ex.val(st, i.X).(*StructV)
		if !ok {
			st.regs[i] = ex.freshValue(st, "field", i.Type(), "fresh")
		} else {
			st.regs[i] = sv.Fields[i.Field]
		}
	case *ssa.Slice:
		return ex.sliceOp(st, i)
	case *ssa.MakeSlice:
		return ex.makeSlice(st, i)
	case *ssa.Call:
		return ex.call(st, i)
	case *ssa.Defer:
		if mc, ok := i.Call.Value.(*ssa.MakeClosure); ok && len(i.Call.Args) == 0 {
			cv := ex.val(st, mc).(*ClosureV)
			st.defers = append(st.defers, *cv)
		} else {
			ex.unsupported(st, "defer of non-closure", i.Pos())
		}
	case *ssa.RunDefers:
		return ex.runDefers(st, i)
	case *ssa.MakeClosure:
		cv := &ClosureV{Fn: i.Fn.(*ssa.Function)}
		for _, b := range i.Bindings {
			cv.Bindings = append(cv.Bindings, ex.val(st, b))
		}
		st.regs[i] = cv
	case *ssa.MakeMap:
		ex.makeMap(st, i)
	case *ssa.MapUpdate:
		ex.mapUpdate(st, i)
	case *ssa.Lookup:
		st.regs[i] = ex.freshValue(st, "lookup", i.Type(), "fresh")
	case *ssa.TypeAssert:
		return ex.typeAssert(st, i)
	case *ssa.DebugRef:
	case *ssa.Range, *ssa.Next, *ssa.Go, *ssa.Select, *ssa.Send, *ssa.MakeChan:
		ex.unsupported(st, fmt.Sprintf("instruction %T", ins), ins.Pos())
		if v, ok := ins.(ssa.Value); ok {
			st.regs[v] = ex.freshValue(st, "unsup", v.Type(), "fresh")
		}
	default:
		ex.unsupported(st, fmt.Sprintf("instruction %T", ins), ins.Pos())
		if v, ok := ins.(ssa.Value); ok {
			st.regs[v] = ex.freshValue(st, "unsup", v.Type(), "fresh")
		}
	}
	return []*State{st}
}

func (ex *Exec) unop(st *State, i *ssa.UnOp) Value {
	switch i.Op {
	case token.MUL: // load
		pv, ok := ex.val(st, i.X).(*PtrV)
		if !ok {
			ex.unsupported(st, "load through non-pointer", i.Pos())
			return ex.freshValue(st, "load", i.Type(), "fresh")
		}
		ex.oblige(st, "nil-deref", ex.siteName(i.Pos(), "load"), Not(pv.Nil), i.Pos())
		if pv.Nil == True {
			return ex.freshValue(st, "nilload", i.Type(), "fresh")
		}
		if r, ok := pv.P.Root.(*Region); ok && !r.Input && r.Kind != "string" && r.Kind != "view" {
			st.events = append(st.events, &Event{Kind: "load-elem", Site: r.Name, NPC: len(st.pc), Pos: i.Pos()})
		}
		v := ex.load(st, pv.P)
		if op, ok := v.(*OpaqueV); ok && op.T == nil {
			return ex.freshValue(st, "opaqueload", i.Type(), "fresh")
		}
		return v
	case token.NOT:
		return Not(ex.term(st, i.X))
	case token.SUB:
		if isFloat(i.X.Type()) {
			return BVOp("bvxor", ex.term(st, i.X), BVC(64, new(big.Int).Lsh(big.NewInt(1), 63)))
		}
		return Neg(ex.term(st, i.X))
	case token.XOR:
		return BVNot(ex.term(st, i.X))
	}
	ex.unsupported(st, "unop "+i.Op.String(), i.Pos())
	return ex.freshValue(st, "unop", i.Type(), "fresh")
}

func (ex *Exec) binop(st *State, i *ssa.BinOp) Value {
	xv, yv := ex.val(st, i.X), ex.val(st, i.Y)
	xt := i.X.Type()
	// pointer / interface / slice comparisons
	switch a := xv.(type) {
	case *PtrV:
		b, ok := yv.(*PtrV)
		if !ok {
			break
		}
		var eq *Term
		switch {
		case b.Nil == True:
			eq = a.Nil
		case a.Nil == True:
			eq = b.Nil
		default:
			if a.P.Root == b.P.Root && len(a.P.Path) == 0 && len(b.P.Path) == 0 {
				eq = Or(And(a.Nil, b.Nil), And(Not(a.Nil), Not(b.Nil)))
			} else {
				eq = ex.fresh("ptreq", BoolSort)
			}
		}
		if i.Op == token.EQL {
			return eq
		}
		return Not(eq)
	case *SliceV:
		// comparison with nil only
		isnil := And(Eq(a.Len, I64(0)), Eq(a.Cap, I64(0)))
		if a.Reg.Kind != "nil" {
			isnil = ex.fresh("slicenil", BoolSort)
		}
		if i.Op == token.EQL {
			return isnil
		}
		return Not(isnil)
	case *StringV:
		b, ok := yv.(*StringV)
		if ok && (i.Op == token.EQL || i.Op == token.NEQ) {
			var eq *Term
			if b.Len.IsConst() && b.Len.Val.Sign() == 0 {
				eq = Eq(a.Len, I64(0))
			} else if a.Len.IsConst() && a.Len.Val.Sign() == 0 {
				eq = Eq(b.Len, I64(0))
			} else {
				eq = ex.fresh("streq", BoolSort)
			}
			if i.Op == token.EQL {
				return eq
			}
			return Not(eq)
		}
	case *OpaqueV:
		return ex.freshValue(st, "opaqueop", i.Type(), "fresh")
	}
	x, ok1 := xv.(*Term)
	y, ok2 := yv.(*Term)
	if !ok1 || !ok2 {
		ex.unsupported(st, fmt.Sprintf("binop %s on %T,%T", i.Op, xv, yv), i.Pos())
		return ex.freshValue(st, "binop", i.Type(), "fresh")
	}
	if isFloat(xt) {
		return ex.floatBinop(st, i, x, y)
	}
	signed := isSigned(xt)
	switch i.Op {
	case token.ADD:
		return Add(x, y)
	case token.SUB:
		return Sub(x, y)
	case token.MUL:
		return Mul(x, y)
	case token.QUO:
		ex.oblige(st, "div0", ex.siteName(i.Pos(), "div"), Not(Eq(y, BVI(y.Sort.W, 0))), i.Pos())
		if signed {
			return BVOp("bvsdiv", x, y)
		}
		return BVOp("bvudiv", x, y)
	case token.REM:
		ex.oblige(st, "div0", ex.siteName(i.Pos(), "rem"), Not(Eq(y, BVI(y.Sort.W, 0))), i.Pos())
		if signed {
			return BVOp("bvsrem", x, y)
		}
		return BVOp("bvurem", x, y)
	case token.AND:
		if x.Sort.Kind == KBool {
			return And(x, y)
		}
		return BVOp("bvand", x, y)
	case token.OR:
		if x.Sort.Kind == KBool {
			return Or(x, y)
		}
		return BVOp("bvor", x, y)
	case token.XOR:
		return BVOp("bvxor", x, y)
	case token.AND_NOT:
		return BVOp("bvand", x, BVNot(y))
	case token.SHL, token.SHR:
		// Go: shift count is unsigned (or checked non-negative); shifts >= width give 0 / sign fill
		w := x.Sort.W
		ys := y
		if isSigned(i.Y.Type()) {
			ex.oblige(st, "shift-neg", ex.siteName(i.Pos(), "shift"), Sle(BVI(y.Sort.W, 0), y), i.Pos())
		}
		// bring the count to the operand width, saturating
		var cnt *Term
		if ys.Sort.W > w {
			big := Ule(BVI(ys.Sort.W, int64(w)), ys)
			cnt = Ite(big, BVI(w, int64(w)), Extract(w-1, 0, ys))
		} else {
			cnt = ZeroExt(w-ys.Sort.W, ys)
		}
		if i.Op == token.SHL {
			return BVOp("bvshl", x, cnt)
		}
		if signed {
			return BVOp("bvashr", x, cnt)
		}
		return BVOp("bvlshr", x, cnt)
	case token.EQL:
		return Eq(x, y)
	case token.NEQ:
		return Not(Eq(x, y))
	case token.LSS:
		if signed {
			return Slt(x, y)
		}
		return Ult(x, y)
	case token.LEQ:
		if signed {
			return Sle(x, y)
		}
		return Ule(x, y)
	case token.GTR:
		if signed {
			return Slt(y, x)
		}
		return Ult(y, x)
	case token.GEQ:
		if signed {
			return Sle(y, x)
		}
		return Ule(y, x)
	}
	ex.unsupported(st, "binop "+i.Op.String(), i.Pos())
	return ex.freshValue(st, "binop", i.Type(), "fresh")
}

func (ex *Exec) floatBinop(st *State, i *ssa.BinOp, x, y *Term) Value {
	name := map[token.Token]string{token.ADD: "f64.add", token.SUB: "f64.sub", token.MUL: "f64.mul", token.QUO: "f64.div",
		token.EQL: "f64.eq", token.NEQ: "f64.eq", token.LSS: "f64.lt", token.LEQ: "f64.le", token.GTR: "f64.lt", token.GEQ: "f64.le"}[i.Op]
	switch i.Op {
	case token.ADD, token.SUB, token.MUL, token.QUO:
		return App(name, BV(64), x, y)
	case token.EQL:
		return App(name, BoolSort, x, y)
	case token.NEQ:
		return Not(App(name, BoolSort, x, y))
	case token.LSS, token.LEQ:
		return App(name, BoolSort, x, y)
	case token.GTR, token.GEQ:
		return App(name, BoolSort, y, x)
	}
	return ex.freshValue(st, "fbinop", i.Type(), "fresh")
}

func (ex *Exec) convert(st *State, i *ssa.Convert) Value {
	xv := ex.val(st, i.X)
	from, to := i.X.Type(), i.Type()
	// []byte -> string, string -> []byte
	if sv, ok := xv.(*SliceV); ok {
		if b, ok := to.Underlying().(*types.Basic); ok && b.Kind() == types.String {
			r := newRegion("str", BV(8), "string")
			r.Copy = true
			// copy: contents equal at conversion time
			st.store[r] = ex.load(st, Place{Root: sv.Reg})
			ex.allocEvent(st, "string([]byte)", sv.Len, i.Pos())
			return &StringV{Reg: r, Off: sv.Off, Len: sv.Len}
		}
	}
	if sv, ok := xv.(*StringV); ok {
		if _, ok := to.Underlying().(*types.Slice); ok {
			r := newRegion("bytes", BV(8), "fresh")
			st.store[r] = ex.load(st, Place{Root: sv.Reg})
			ex.allocEvent(st, "[]byte(string)", sv.Len, i.Pos())
			return &SliceV{Reg: r, Off: sv.Off, Len: sv.Len, Cap: sv.Len, ElemT: types.Typ[types.Byte]}
		}
	}
	x, ok := xv.(*Term)
	if !ok {
		ex.unsupported(st, fmt.Sprintf("convert %s <- %s", to, from), i.Pos())
		return ex.freshValue(st, "convert", to, "fresh")
	}
	if b, ok := to.Underlying().(*types.Basic); ok && b.Kind() == types.String {
		// string(rune): UTF-8 encoding, 1..4 bytes (assumed contract of the runtime)
		r := newRegion("runestr", BV(8), "string")
		ln := ex.fresh("runestr.len", BV(64))
		st.assume(And(Sle(I64(1), ln), Sle(ln, I64(4))))
		st.store[r] = &ArrayV{Arr: ex.fresh("runestr.bytes", ArraySort(BV(64), BV(8)))}
		return &StringV{Reg: r, Off: I64(0), Len: ln}
	}
	ts := sortOf(to)
	if ts == nil {
		ex.unsupported(st, fmt.Sprintf("convert %s <- %s", to, from), i.Pos())
		return ex.freshValue(st, "convert", to, "fresh")
	}
	switch {
	case isFloat(from) && isFloat(to):
		return x
	case isFloat(to):
		nm := "f64.from_u64"
		if isSigned(from) {
			nm = "f64.from_i64"
		}
		return App(nm, BV(64), Resize(x, 64, isSigned(from)))
	case isFloat(from):
		return Resize(App("f64.to_i64", BV(64), x), ts.W, true)
	}
	return Resize(x, ts.W, isSigned(from))
}

func (ex *Exec) makeInterface(st *State, i *ssa.MakeInterface) Value {
	if isErrorType(i.Type()) {
		e := ex.fresh("boxederr", ErrSort)
		st.assume(Not(Eq(e, NilErr)))
		return e
	}
	// boxing: a fresh non-nil interface value determined by the boxed value where scalar
	xv := ex.val(st, i.X)
	var f *Term
	if t, ok := xv.(*Term); ok {
		f = App("box."+sanitize(i.X.Type().String())+"."+t.Sort.String(), IfaceSort, t)
	} else {
		f = ex.fresh("boxed", IfaceSort)
	}
	st.assume(Not(Eq(f, NilIface)))
	switch i.X.Type().Underlying().(type) {
	case *types.Pointer, *types.Map, *types.Signature:
	default:
		ex.allocEvent(st, "box", I64(sizeofType(i.X.Type())), i.Pos())
	}
	return f
}

func sanitize(s string) string {
	r := strings.NewReplacer(" ", "_", "(", "_", ")", "_", "*", "P", "[", "_", "]", "_", "{", "_", "}", "_", "/", ".", ",", "_")
	return r.Replace(s)
}

func (ex *Exec) typeAssert(st *State, i *ssa.TypeAssert) []*State {
	if i.CommaOk {
		ok := ex.fresh("assertok", BoolSort)
		st.regs[i] = TupleV{ex.freshValue(st, "asserted", i.AssertedType, "fresh"), ok}
		return []*State{st}
	}
	// may panic: obligation that the dynamic type matches cannot be decided here
	ex.oblige(st, "type-assert", ex.siteName(i.Pos(), "typeassert"), ex.fresh("assert.matches", BoolSort), i.Pos())
	st.regs[i] = ex.freshValue(st, "asserted", i.AssertedType, "fresh")
	return []*State{st}
}

func (ex *Exec) indexAddr(st *State, i *ssa.IndexAddr) []*State {
	xv := ex.val(st, i.X)
	idx := Resize(ex.term(st, i.Index), 64, isSigned(i.Index.Type()))
	switch x := xv.(type) {
	case *SliceV:
		ex.oblige(st, "bounds", ex.siteName(i.Pos(), "index"), And(Sle(I64(0), idx), Slt(idx, x.Len)), i.Pos())
		abs := Add(x.Off, idx)
		st.regs[i] = &PtrV{Nil: False, P: Place{Root: x.Reg, Path: []PathElem{{Index: abs}}}, T: x.ElemT}
		if ex.specHook != nil && x.Reg.Input {
			ex.specHook.OnRead(st, x.Reg, abs)
		}
	case *PtrV: // pointer to array
		at := x.T.Underlying().(*types.Array)
		ex.oblige(st, "nil-deref", ex.siteName(i.Pos(), "index"), Not(x.Nil), i.Pos())
		ex.oblige(st, "bounds", ex.siteName(i.Pos(), "index"), And(Sle(I64(0), idx), Slt(idx, I64(at.Len()))), i.Pos())
		np := Place{Root: x.P.Root, Path: append(append([]PathElem{}, x.P.Path...), PathElem{Index: idx})}
		st.regs[i] = &PtrV{Nil: False, P: np, T: at.Elem()}
	default:
		ex.unsupported(st, fmt.Sprintf("indexaddr on %T", xv), i.Pos())
		st.regs[i] = ex.freshValue(st, "indexaddr", i.Type(), "fresh")
	}
	return []*State{st}
}

func (ex *Exec) index(st *State, i *ssa.Index) []*State {
	xv := ex.val(st, i.X)
	idx := Resize(ex.term(st, i.Index), 64, isSigned(i.Index.Type()))
	switch x := xv.(type) {
	case *StringV:
		ex.oblige(st, "bounds", ex.siteName(i.Pos(), "index"), And(Sle(I64(0), idx), Slt(idx, x.Len)), i.Pos())
		arr := ex.load(st, Place{Root: x.Reg}).(*ArrayV)
		st.regs[i] = Select(arr.Arr, Add(x.Off, idx))
	case *ArrayV:
		ex.oblige(st, "bounds", ex.siteName(i.Pos(), "index"), And(Sle(I64(0), idx), Slt(idx, I64(x.Len))), i.Pos())
		st.regs[i] = Select(x.Arr, idx)
	default:
		ex.unsupported(st, fmt.Sprintf("index on %T", xv), i.Pos())
		st.regs[i] = ex.freshValue(st, "index", i.Type(), "fresh")
	}
	return []*State{st}
}

func (ex *Exec) sliceOp(st *State, i *ssa.Slice) []*State {
	xv := ex.val(st, i.X)
	get := func(v ssa.Value, def *Term) *Term {
		if v == nil {
			return def
		}
		return Resize(ex.term(st, v), 64, isSigned(v.Type()))
	}
	switch x := xv.(type) {
	case *SliceV:
		lo := get(i.Low, I64(0))
		hi := get(i.High, x.Len)
		mx := get(i.Max, x.Cap)
		ex.oblige(st, "slice", ex.siteName(i.Pos(), "slice"), And(Sle(I64(0), lo), Sle(lo, hi), Sle(hi, mx), Sle(mx, x.Cap)), i.Pos())
		st.regs[i] = &SliceV{Reg: x.Reg, Off: Add(x.Off, lo), Len: Sub(hi, lo), Cap: Sub(mx, lo), ElemT: x.ElemT}
	case *StringV:
		lo := get(i.Low, I64(0))
		hi := get(i.High, x.Len)
		ex.oblige(st, "slice", ex.siteName(i.Pos(), "slice"), And(Sle(I64(0), lo), Sle(lo, hi), Sle(hi, x.Len)), i.Pos())
		st.regs[i] = &StringV{Reg: x.Reg, Off: Add(x.Off, lo), Len: Sub(hi, lo)}
	case *PtrV: // pointer to array: a[lo:hi]
		at, ok := x.T.Underlying().(*types.Array)
		if !ok {
			ex.unsupported(st, "slice of pointer to non-array", i.Pos())
			st.regs[i] = ex.freshValue(st, "slice", i.Type(), "fresh")
			return []*State{st}
		}
		ex.oblige(st, "nil-deref", ex.siteName(i.Pos(), "slice"), Not(x.Nil), i.Pos())
		lo := get(i.Low, I64(0))
		hi := get(i.High, I64(at.Len()))
		ex.oblige(st, "slice", ex.siteName(i.Pos(), "slice"), And(Sle(I64(0), lo), Sle(lo, hi), Sle(hi, I64(at.Len()))), i.Pos())
		// the slice aliases the array: model as a view region keyed by the place
		reg := ex.arrayViewRegion(st, x.P, at)
		st.regs[i] = &SliceV{Reg: reg, Off: lo, Len: Sub(hi, lo), Cap: Sub(I64(at.Len()), lo), ElemT: at.Elem()}
	default:
		ex.unsupported(st, fmt.Sprintf("slice of %T", xv), i.Pos())
		st.regs[i] = ex.freshValue(st, "slice", i.Type(), "fresh")
	}
	return []*State{st}
}

// arrayViewRegion: slices of array-typed places are not tracked as aliases; contents are copied
// into a fresh read-only snapshot region (writes through such a slice are reported unsupported).
func (ex *Exec) arrayViewRegion(st *State, p Place, at *types.Array) *Region {
	es := sortOf(at.Elem())
	r := newRegion("arrview", es, "view")
	if av, ok := ex.load(st, p).(*ArrayV); ok {
		st.store[r] = &ArrayV{Arr: av.Arr}
	}
	return r
}

func sizeofType(t types.Type) int64 {
	switch u := t.Underlying().(type) {
	case *types.Basic:
		switch u.Kind() {
		case types.Bool, types.Int8, types.Uint8:
			return 1
		case types.Int16, types.Uint16:
			return 2
		case types.Int32, types.Uint32, types.Float32:
			return 4
		case types.String:
			return 16
		}
		return 8
	case *types.Slice:
		return 24
	case *types.Interface:
		return 16
	case *types.Struct:
		var n int64
		for i := 0; i < u.NumFields(); i++ {
			n += (sizeofType(u.Field(i).Type()) + 7) &^ 7
		}
		return n
	case *types.Array:
		return u.Len() * sizeofType(u.Elem())
	}
	return 8
}

func (ex *Exec) allocEvent(st *State, site string, bytes *Term, pos token.Pos) {
	st.events = append(st.events, &Event{Kind: "alloc", Site: ex.siteName(pos, site), Info: map[string]*Term{"bytes": bytes}, NPC: len(st.pc), Pos: pos})
	ex.addAlloc(st, bytes)
}

// addAlloc: ghost counter of heap bytes requested by this call (and its callees under contract).
func (ex *Exec) addAlloc(st *State, bytes *Term) {
	g, ok := st.ghost["alloc"]
	if !ok {
		g = I64(0)
	}
	st.ghost["alloc"] = Add(g, bytes)
}

func (ex *Exec) makeSlice(st *State, i *ssa.MakeSlice) []*State {
	ln := Resize(ex.term(st, i.Len), 64, true)
	cp := Resize(ex.term(st, i.Cap), 64, true)
	et := i.Type().Underlying().(*types.Slice).Elem()
	es := sortOf(et)
	ex.oblige(st, "makeslice", ex.siteName(i.Pos(), "make"), And(Sle(I64(0), ln), Sle(ln, cp)), i.Pos())
	// A-maxalloc: an allocation that returns fits in the address space
	st.assume(Sle(cp, I64(1<<maxAllocLog)))
	if es == nil {
		st.regs[i] = &OpaqueV{T: i.Type(), Name: "makeslice"}
		ex.allocEvent(st, "make", Mul(cp, I64(sizeofType(et))), i.Pos())
		return []*State{st}
	}
	r := newRegion("make", es, "fresh")
	var z *Term
	if es.Kind == KBool {
		z = False
	} else {
		z = BVI(es.W, 0)
	}
	st.store[r] = &ArrayV{Arr: ConstArray(ArraySort(BV(64), es), z)}
	st.regs[i] = &SliceV{Reg: r, Off: I64(0), Len: ln, Cap: cp, ElemT: et}
	ex.allocEvent(st, "make", Mul(cp, I64(sizeofType(et))), i.Pos())
	return []*State{st}
}

func (ex *Exec) makeMap(st *State, i *ssa.MakeMap) {
	obj := &Object{Name: "map", T: i.Type()}
	st.regs[i] = &MapV{Obj: obj, Nil: False}
	hint := I64(0)
	if i.Reserve != nil {
		hint = Resize(ex.term(st, i.Reserve), 64, true)
	}
	st.events = append(st.events, &Event{Kind: "alloc", Site: ex.siteName(i.Pos(), "makemap"), Info: map[string]*Term{"bytes": Mul(hint, I64(48)), "hint": hint}, NPC: len(st.pc), Pos: i.Pos()})
	ex.addAlloc(st, Add(Mul(hint, I64(48)), I64(48)))
}

func (ex *Exec) mapUpdate(st *State, i *ssa.MapUpdate) {
	mv := ex.val(st, i.Map)
	switch m := mv.(type) {
	case *MapV:
		ex.oblige(st, "nil-map", ex.siteName(i.Pos(), "mapupdate"), Not(m.Nil), i.Pos())
	case *OpaqueV:
		nz := ex.fresh("map.nonnil."+m.Name, BoolSort)
		ex.oblige(st, "nil-map", ex.siteName(i.Pos(), "mapupdate"), nz, i.Pos())
	}
	st.events = append(st.events, &Event{Kind: "mapupdate", Site: ex.siteName(i.Pos(), "mapupdate"), Args: []Value{ex.val(st, i.Key), ex.val(st, i.Value)}, NPC: len(st.pc), Pos: i.Pos()})
}

func (ex *Exec) runDefers(st *State, i *ssa.RunDefers) []*State {
	states := []*State{st}
	for k := len(st.defers) - 1; k >= 0; k-- {
		cv := st.defers[k]
		var next []*State
		for _, s := range states {
			next = append(next, ex.inlineClosure(s, cv)...)
		}
		states = next
	}
	for _, s := range states {
		s.defers = nil
	}
	return states
}

// inlineClosure executes a parameterless, result-less closure body on the state.
func (ex *Exec) inlineClosure(st *State, cv ClosureV) []*State {
	fn := cv.Fn
	if len(fn.Blocks) == 0 {
		return []*State{st}
	}
	for k, fv := range fn.FreeVars {
		st.regs[fv] = cv.Bindings[k]
	}
	var out []*State
	var run func(s *State, b *ssa.BasicBlock, depth int)
	run = func(s *State, b *ssa.BasicBlock, depth int) {
		if depth > 64 {
			ex.unsupported(s, "deep closure", fn.Pos())
			out = append(out, s)
			return
		}
		states := []*State{s}
		for _, ins := range b.Instrs[:len(b.Instrs)-1] {
			if _, ok := ins.(*ssa.RunDefers); ok {
				continue
			}
			var nx []*State
			for _, x := range states {
				nx = append(nx, ex.execInstr(x, ins)...)
			}
			states = nx
		}
		for _, x := range states {
			switch t := b.Instrs[len(b.Instrs)-1].(type) {
			case *ssa.Return:
				out = append(out, x)
			case *ssa.Jump:
				x.prev = b
				run(x, b.Succs[0], depth+1)
			case *ssa.If:
				c := ex.term(x, t.Cond)
				if c != False {
					y := x.clone()
					y.assume(c)
					y.prev = b
					run(y, b.Succs[0], depth+1)
				}
				if c != True {
					x.assume(Not(c))
					x.prev = b
					run(x, b.Succs[1], depth+1)
				}
			default:
				ex.unsupported(x, "closure terminator", fn.Pos())
				out = append(out, x)
			}
		}
	}
	run(st, fn.Blocks[0], 0)
	return out
}

// frameCheck: every store to memory that is not a local variable gets a frame obligation
// (never into an input region, never into a package-level variable).
func (ex *Exec) frameCheck(st *State, p Place, pos token.Pos) {
	switch r := p.Root.(type) {
	case *Region:
		ex.obligeAlways(st, "frame", ex.siteName(pos, "store-not-to-input"), BoolC(!r.Input), pos)
		if r.Kind == "string" || r.Kind == "view" {
			ex.unsupported(st, "write through array view / string", pos)
		}
	case *ssa.Global:
		ex.obligeAlways(st, "frame", ex.siteName(pos, "store-not-to-global"), BoolC(ex.fn.Name() == "init"), pos)
	case *Object:
		ex.obligeAlways(st, "frame", ex.siteName(pos, "store-to-caller-object"), True, pos)
		st.events = append(st.events, &Event{Kind: "store", Site: r.Name, NPC: len(st.pc), Pos: pos})
	}
}

// obligeAlways records the obligation even when it is trivially true (so that frame
// obligations are counted and a later violation has a name that existed before).
func (ex *Exec) obligeAlways(st *State, kind, name string, goal *Term, pos token.Pos) {
	o := &Oblig{Name: name, Kind: kind, Fn: ex.fn.Name(), NHyp: len(st.pc), Goal: goal, Pos: pos}
	st.obls = append(st.obls, o)
	if goal != True && goal != False {
		st.assume(goal)
	}
}

func float64bits(f float64) uint64 {
	return mathFloat64bits(f)
}
