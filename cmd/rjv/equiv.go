package main

// Equivalence driver (C04): a loop-free function of internal/fp computes exactly what the
// corresponding function of the pinned Go 1.23.5 strconv computes. Both are executed symbolically
// from entry on the same parameter symbols; for every pair of return paths the obligation is
// pathcond(repo) && pathcond(reference) ==> equal results. Floating-point operations are the
// same uninterpreted functions on both sides (so only the structure of the computation is
// compared, which is what "is the same algorithm" means); 64x64->128 multiplication and
// count-leading-zeros are exact bit-vector definitions.

import (
	"fmt"

	"golang.org/x/tools/go/ssa"
)

type equivPair struct {
	repo, ref string
	tables    map[string]int64 // shared tables (slice tables with their length; 0 for arrays)
}

var equivPairs = []equivPair{
	{"fp.eiselLemire64", "strconv.eiselLemire64", map[string]int64{"detailedPowersOfTen": 0}},
	{"fp.atof64exact", "strconv.atof64exact", map[string]int64{"float64pow10": 23}},
}

func (eng *Engine) refFunc(key string) *ssa.Function {
	if eng.refSSA == nil {
		return nil
	}
	return eng.lookupFuncIn(eng.refProg, eng.refSSA, key)
}

func (r *Runner) equivObligations() []*LedgerEntry {
	eng := r.eng
	var out []*LedgerEntry
	fail := func(name, detail string) {
		out = append(out, &LedgerEntry{Name: name, Kind: "equiv", Fn: "internal/fp", Instances: 1, Status: "failed", Detail: detail})
	}
	for _, pr := range equivPairs {
		fa := eng.lookupFunc(pr.repo)
		fb := eng.refFunc(pr.ref)
		base := "fp.equiv/" + pr.repo + "==" + pr.ref
		if fa == nil || fb == nil {
			fail(base+"/functions-present", "function not found")
			continue
		}
		if fa.Signature.Params().Len() != fb.Signature.Params().Len() || fa.Signature.Results().Len() != fb.Signature.Results().Len() {
			fail(base+"/same-signature", "signatures differ")
			continue
		}
		mk := func(fn *ssa.Function) *Exec {
			ex := eng.newExec(fn, nil, "hostile")
			ex.sharedTables = map[string]bool{}
			ex.sharedLens = map[string]int64{}
			ex.sharedRegs = map[string]*Region{}
			for n, l := range pr.tables {
				ex.sharedTables[n] = true
				if l > 0 {
					ex.sharedLens[n] = l
				}
			}
			return ex
		}
		exA, exB := mk(fa), mk(fb)
		sA := exA.entryState()
		// same parameter symbols on the reference side (positional)
		sB := exB.entryState()
		for k, p := range fb.Params {
			if k < len(fa.Params) {
				exB.params[p.Name()] = exA.params[fa.Params[k].Name()]
			}
		}
		exA.findCuts()
		exB.findCuts()
		if len(exA.cutAt) > 0 || len(exB.cutAt) > 0 {
			fail(base+"/loop-free", "function has loops; not handled by the equivalence driver")
			continue
		}
		var pathsA, pathsB []*PathEnd
		exA.explore(sA.clone(), fa.Blocks[0], nil, map[*ssa.BasicBlock]*Cut{}, sA, true, func(pe *PathEnd) { pathsA = append(pathsA, pe) })
		exB.explore(sB.clone(), fb.Blocks[0], nil, map[*ssa.BasicBlock]*Cut{}, sB, true, func(pe *PathEnd) { pathsB = append(pathsB, pe) })
		if len(exA.unsup)+len(exB.unsup) > 0 {
			fail(base+"/within-subset", fmt.Sprint(append(exA.unsup, exB.unsup...)))
			continue
		}
		// safety of the repository function on its own (table indices in range etc.)
		for _, pa := range pathsA {
			for _, o := range pa.St.obls {
				q := &Query{Name: o.Name, Hyps: pa.St.pc[:o.NHyp], Goals: []*Term{o.Goal}}
				body, _ := q.Build(0)
				res := eng.pool.Decide(body, nil, r.quickMs, r.slowMs)
				e := &LedgerEntry{Name: "fp.equiv/" + pr.repo + "/" + o.Kind + "/" + stripLine(o.Name), Kind: o.Kind, Fn: pr.repo, Instances: 1, Status: "discharged", Solver: res.Solver, Secs: res.Secs}
				if res.Status != "unsat" {
					e.Status = "failed"
					e.Detail = "solver answered " + res.Status
					e.failQ, e.failRes = q, res
				}
				merged := false
				for _, x := range out {
					if x.Name == e.Name {
						x.Instances++
						if e.Status != "discharged" {
							x.Status, x.Detail, x.failQ, x.failRes = e.Status, e.Detail, e.failQ, e.failRes
						}
						merged = true
					}
				}
				if !merged {
					out = append(out, e)
				}
			}
		}
		// pairwise equal results
		for ia, pa := range pathsA {
			for ib, pb := range pathsB {
				if pa.Kind != "return" || pb.Kind != "return" {
					fail(fmt.Sprintf("%s/path%d-path%d/both-return", base, ia, ib), "a path does not end in a return")
					continue
				}
				var gs []*Term
				for j := range pa.Results {
					ta, ok1 := pa.Results[j].(*Term)
					tb, ok2 := pb.Results[j].(*Term)
					if !ok1 || !ok2 || ta.Sort != tb.Sort {
						gs = append(gs, False)
						continue
					}
					gs = append(gs, Eq(ta, tb))
				}
				goal := And(gs...)
				name := fmt.Sprintf("%s/return#%d-vs-reference-return#%d/equal-results", base, ia+1, ib+1)
				e := &LedgerEntry{Name: name, Kind: "equiv", Fn: pr.repo, Instances: 1, Status: "discharged", Solver: "term-identity"}
				if goal != True {
					hyps := append(append([]*Term{}, pa.St.pc...), pb.St.pc...)
					q := &Query{Name: name, Hyps: hyps, Goals: []*Term{goal}, Values: FreeVars(hyps...)}
					body, vals := q.Build(0)
					res := eng.pool.Decide(body, vals, r.quickMs, r.slowMs)
					e.Solver, e.Secs = res.Solver, res.Secs
					if res.Status != "unsat" {
						e.Status = "failed"
						if res.Status != "sat" {
							e.Status = "undecided"
						}
						e.Detail = "solver answered " + res.Status
						e.Model = fmtModel(q.Values, vals, res)
						e.failQ, e.failRes = q, res
					}
				}
				out = append(out, e)
			}
		}
	}
	return out
}
