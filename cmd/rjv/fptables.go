package main

// Ground obligations on the constant tables of internal/fp (C04): every row equals its
// mathematical definition and equals the row of the pinned Go 1.23.5 strconv reference.
// The tables are read from the composite literals in /repo's source on every run (go/types
// constant evaluation); the expected values are computed with math/big. One ledger entry per row,
// so a flipped bit names its row.

import (
	"fmt"
	"go/ast"
	"go/constant"
	"go/token"
	"go/types"
	"math"
	"math/big"

	"golang.org/x/tools/go/packages"
)

type litTable struct {
	rows [][]constant.Value // each row: one or more constants (struct/array fields flattened)
}

func findVarLit(p *packages.Package, name string) *ast.CompositeLit {
	for _, f := range p.Syntax {
		for _, d := range f.Decls {
			gd, ok := d.(*ast.GenDecl)
			if !ok {
				continue
			}
			for _, sp := range gd.Specs {
				vs, ok := sp.(*ast.ValueSpec)
				if !ok {
					continue
				}
				for k, nm := range vs.Names {
					if nm.Name == name && k < len(vs.Values) {
						if cl, ok := vs.Values[k].(*ast.CompositeLit); ok {
							return cl
						}
					}
				}
			}
		}
	}
	return nil
}

func extractLitTable(p *packages.Package, name string) (*litTable, error) {
	cl := findVarLit(p, name)
	if cl == nil {
		return nil, fmt.Errorf("table %s not found", name)
	}
	t := &litTable{}
	val := func(e ast.Expr) (constant.Value, bool) {
		tv, ok := p.TypesInfo.Types[e]
		if !ok || tv.Value == nil {
			return nil, false
		}
		return tv.Value, true
	}
	for _, el := range cl.Elts {
		if kv, ok := el.(*ast.KeyValueExpr); ok {
			el = kv.Value
		}
		var row []constant.Value
		if inner, ok := el.(*ast.CompositeLit); ok {
			for _, ie := range inner.Elts {
				if kv, ok := ie.(*ast.KeyValueExpr); ok {
					ie = kv.Value
				}
				v, ok := val(ie)
				if !ok {
					return nil, fmt.Errorf("table %s: non-constant element", name)
				}
				row = append(row, v)
			}
		} else {
			v, ok := val(el)
			if !ok {
				return nil, fmt.Errorf("table %s: non-constant element", name)
			}
			row = append(row, v)
		}
		t.rows = append(t.rows, row)
	}
	return t, nil
}

func constBig(v constant.Value) *big.Int {
	iv := constant.ToInt(v)
	b, _ := new(big.Int).SetString(iv.ExactString(), 10)
	return b
}

// pow10Mantissa128: the 128 most significant bits of 10^q, truncated (rounded down).
func pow10Mantissa128(q int) *big.Int {
	ten := big.NewInt(10)
	if q >= 0 {
		v := new(big.Int).Exp(ten, big.NewInt(int64(q)), nil)
		bl := v.BitLen()
		if bl <= 128 {
			return v.Lsh(v, uint(128-bl))
		}
		return v.Rsh(v, uint(bl-128))
	}
	d := new(big.Int).Exp(ten, big.NewInt(int64(-q)), nil)
	// floor(2^s / d) with s chosen so that the quotient has exactly 128 bits
	s := 127 + d.BitLen()
	num := new(big.Int).Lsh(big.NewInt(1), uint(s))
	m := new(big.Int).Quo(num, d)
	for m.BitLen() > 128 {
		s--
		num = new(big.Int).Lsh(big.NewInt(1), uint(s))
		m = new(big.Int).Quo(num, d)
	}
	for m.BitLen() < 128 {
		s++
		num = new(big.Int).Lsh(big.NewInt(1), uint(s))
		m = new(big.Int).Quo(num, d)
	}
	return m
}

func (eng *Engine) fpTableObligations() []*LedgerEntry {
	var out []*LedgerEntry
	var fpPkg, refPkg *packages.Package
	for _, p := range eng.pkgs {
		if p.Name == "fp" {
			fpPkg = p
		}
	}
	for _, p := range eng.refPkgs {
		if p.Name == "strconv" {
			refPkg = p
		}
	}
	add := func(name string, ok bool, detail string) {
		e := &LedgerEntry{Name: "fp.table/" + name, Kind: "table", Fn: "internal/fp", Instances: 1, Status: "discharged", Solver: "ground-eval(math/big)"}
		if !ok {
			e.Status = "failed"
			e.Detail = detail
		}
		out = append(out, e)
	}
	if fpPkg == nil {
		add("package-internal/fp-loaded", false, "package not found")
		return out
	}
	refRows := func(name string) *litTable {
		if refPkg == nil {
			return nil
		}
		t, _ := extractLitTable(refPkg, name)
		return t
	}
	sameAsRef := func(name string, t *litTable) {
		rt := refRows(name)
		if rt == nil {
			add(name+"/equals-reference-strconv", false, "reference table not available")
			return
		}
		if len(rt.rows) != len(t.rows) {
			add(name+"/equals-reference-strconv/length", false, fmt.Sprintf("%d rows, reference has %d", len(t.rows), len(rt.rows)))
			return
		}
		for i := range t.rows {
			ok := len(t.rows[i]) == len(rt.rows[i])
			for j := 0; ok && j < len(t.rows[i]); j++ {
				ok = constant.Compare(t.rows[i][j], token.EQL, rt.rows[i][j])
			}
			add(fmt.Sprintf("%s/row[%d]==reference", name, i), ok, "row differs from Go 1.23.5 strconv")
		}
	}
	// detailedPowersOfTen
	if t, err := extractLitTable(fpPkg, "detailedPowersOfTen"); err != nil {
		add("detailedPowersOfTen/readable", false, err.Error())
	} else {
		add("detailedPowersOfTen/length==696", len(t.rows) == 696, fmt.Sprintf("%d rows", len(t.rows)))
		for i, r := range t.rows {
			q := i - 348
			ok := len(r) == 2
			detail := ""
			if ok {
				want := pow10Mantissa128(q)
				got := new(big.Int).Lsh(constBig(r[1]), 64)
				got.Or(got, constBig(r[0]))
				ok = got.Cmp(want) == 0
				detail = fmt.Sprintf("got %x want %x", got, want)
			}
			add(fmt.Sprintf("detailedPowersOfTen/row[1e%d]==top128bits(10^%d)", q, q), ok, detail)
		}
		sameAsRef("detailedPowersOfTen", t)
	}
	// float64pow10
	if t, err := extractLitTable(fpPkg, "float64pow10"); err != nil {
		add("float64pow10/readable", false, err.Error())
	} else {
		add("float64pow10/length==23", len(t.rows) == 23, fmt.Sprintf("%d rows", len(t.rows)))
		for k, r := range t.rows {
			f, _ := constant.Float64Val(r[0])
			exact := new(big.Float).SetInt(new(big.Int).Exp(big.NewInt(10), big.NewInt(int64(k)), nil))
			bf := new(big.Float).SetFloat64(f)
			add(fmt.Sprintf("float64pow10/row[%d]==10^%d-exactly", k, k), exact.Cmp(bf) == 0, fmt.Sprintf("bits %x", math.Float64bits(f)))
		}
		sameAsRef("float64pow10", t)
	}
	// powtab
	if t, err := extractLitTable(fpPkg, "powtab"); err != nil {
		add("powtab/readable", false, err.Error())
	} else {
		add("powtab/length==9", len(t.rows) == 9, fmt.Sprintf("%d rows", len(t.rows)))
		for k, r := range t.rows {
			want := int64(1)
			if k > 0 {
				want = int64(new(big.Int).Exp(big.NewInt(10), big.NewInt(int64(k)), nil).BitLen() - 1)
			}
			add(fmt.Sprintf("powtab/row[%d]==floor(log2(10^%d))", k, k), constBig(r[0]).Int64() == want, fmt.Sprintf("want %d", want))
		}
		sameAsRef("powtab", t)
	}
	// leftcheats
	if t, err := extractLitTable(fpPkg, "leftcheats"); err != nil {
		add("leftcheats/readable", false, err.Error())
	} else {
		add("leftcheats/length==61", len(t.rows) == 61, fmt.Sprintf("%d rows", len(t.rows)))
		for k, r := range t.rows {
			ok := len(r) == 2
			if ok {
				wantDelta, wantCut := int64(0), ""
				if k > 0 {
					wantDelta = int64(len(new(big.Int).Lsh(big.NewInt(1), uint(k)).String()))
					wantCut = new(big.Int).Exp(big.NewInt(5), big.NewInt(int64(k)), nil).String()
				}
				ok = constBig(r[0]).Int64() == wantDelta && constant.StringVal(r[1]) == wantCut
			}
			add(fmt.Sprintf("leftcheats/row[%d]=={digits(2^%d),5^%d}", k, k, k), ok, "")
		}
		sameAsRef("leftcheats", t)
	}
	// digits table of fp
	if t, err := extractDenseBoolTable(fpPkg, "digits"); err != nil {
		add("digits/readable", false, err.Error())
	} else {
		for b := 0; b < 256; b++ {
			add(fmt.Sprintf("digits/row[%d]", b), t[b] == (b >= '0' && b <= '9'), "")
		}
	}
	return out
}

func extractDenseBoolTable(p *packages.Package, name string) ([256]bool, error) {
	var out [256]bool
	cl := findVarLit(p, name)
	if cl == nil {
		return out, fmt.Errorf("table %s not found", name)
	}
	for _, el := range cl.Elts {
		kv, ok := el.(*ast.KeyValueExpr)
		if !ok {
			return out, fmt.Errorf("table %s: unkeyed element", name)
		}
		k := p.TypesInfo.Types[kv.Key].Value
		v := p.TypesInfo.Types[kv.Value].Value
		if k == nil || v == nil {
			return out, fmt.Errorf("table %s: non-constant element", name)
		}
		i, _ := constant.Int64Val(constant.ToInt(k))
		if i < 0 || i > 255 {
			return out, fmt.Errorf("table %s: index out of range", name)
		}
		out[i] = constant.BoolVal(v)
	}
	return out, nil
}

var _ = types.Typ
