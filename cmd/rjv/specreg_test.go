package main

// Bounded validation of the register definitions attached to the specification run (number
// registers used by C04, output registers of string tokens): the SMT definitions themselves are
// evaluated by the solver on concrete inputs (fold axiom asserted at every index) and compared
// with an independent computation (math/big for numbers, encoding/json for strings).

import (
	"encoding/json"
	"fmt"
	"math/big"
	"strings"
	"testing"
)

func evalRegisters(t *testing.T, pool *Pool, input string, num, out bool, values func(ex *Exec, arr *Term) []*Term) (map[string]string, []string) {
	arr := Var("val.arr", ArraySort(BV(64), BV(8)))
	n := int64(len(input))
	ex := &Exec{simVariant: "value", simLimit: 10000, simNum: num, simOut: out, simEnd: I64(n)}
	var hyps []*Term
	for k := int64(0); k < n; k++ {
		hyps = append(hyps, Eq(Select(arr, I64(k)), BVI(8, int64(input[k]))))
	}
	hyps = append(hyps, ex.initAxiom(arr))
	if out {
		hyps = append(hyps, Eq(ex.Rout(arr, I64(0)), I64(0)), Not(ex.Rskip(arr, I64(0))))
	}
	for k := int64(0); k < n; k++ {
		hyps = append(hyps, ex.stepAxiom(arr, I64(k)))
	}
	vals := values(ex, arr)
	if out {
		// definitions of the uninterpreted escape / utf8 symbols at every escape position
		for k := int64(0); k+6 <= n; k++ {
			if input[k] == '\\' && input[k+1] == 'u' {
				i := I64(k)
				hyps = append(hyps, Eq(escRuneSym(arr, i, I64(n)), escRune(arr, i, I64(n))), Eq(escPairSym(arr, i, I64(n)), escPair(arr, i, I64(n))))
				r := escRuneSym(arr, i, I64(n))
				ln, b := utf8Bytes(r)
				hyps = append(hyps, Eq(u8len(r), ln))
				for j := int64(0); j < 4; j++ {
					hyps = append(hyps, Eq(u8b(r, I64(j)), b[j]))
				}
			}
		}
	}
	q := &Query{Name: "specval", Hyps: hyps, Goals: []*Term{False}, Values: vals}
	body, names := q.Build(0)
	res := pool.Decide(body, names, 20000, 60000)
	if res.Status != "sat" {
		t.Fatalf("%q: register definitions are not satisfiable on a concrete input (%s)", input, res.Status)
	}
	return res.Values, names
}

func bvInt(s string) *big.Int {
	v, ok := parseBV(s)
	if !ok {
		return big.NewInt(-1)
	}
	return v
}

func TestNumberRegisters(t *testing.T) {
	pool := NewPool(4)
	defer pool.Close()
	lits := []string{"0", "-0", "7", "12", "-12", "1.5", "0.001", "-0.5", "10.25", "123456789012345678", "1234567890123456789", "12345678901234567890",
		"123456789012345678901234", "0.1234567890123456789012", "1e5", "1E-5", "0.5e+10", "12345678901234567890.123e-7", "0.00000000000000000001e30",
		"-1.7976931348623157e308", "1e9999", "1e10000", "1e99999", "1e123456", "2.5E-0", "0e0", "100", "1000000000000000000000", "9.999999999999999999999e-3"}
	for _, lit := range lits {
		for _, suffix := range []string{"", " ", ",x"} {
			input := lit + suffix
			end := I64(int64(len(lit)))
			vals, names := evalRegisters(t, pool, input, true, false, func(ex *Exec, arr *Term) []*Term {
				var out []*Term
				for _, r := range []string{"mant", "nd", "dot", "dp", "neg", "ev", "esg"} {
					out = append(out, ex.Rnum(r, arr, end))
				}
				return out
			})
			get := func(i int) string { return vals[names[i]] }
			mant, nd := bvInt(get(0)), bvInt(get(1)).Int64()
			dot, dp := get(2) == "true", bvInt(get(3)).Int64()
			neg := get(4) == "true"
			ev := bvInt(get(5)).Int64()
			esg := int64(1)
			if bvInt(get(6)).Bit(63) == 1 {
				esg = -1
			}
			// independent reading of the literal
			s := lit
			wneg := strings.HasPrefix(s, "-")
			s = strings.TrimPrefix(s, "-")
			mpart, epart := s, ""
			if i := strings.IndexAny(s, "eE"); i >= 0 {
				mpart, epart = s[:i], s[i+1:]
			}
			ipart, fpart, wdot := mpart, "", false
			if i := strings.IndexByte(mpart, '.'); i >= 0 {
				ipart, fpart, wdot = mpart[:i], mpart[i+1:], true
			}
			digits := ipart + fpart
			wnd := int64(len(digits))
			k := wnd
			if k > 19 {
				k = 19
			}
			wmant, _ := new(big.Int).SetString(digits[:k], 10)
			if neg != wneg || nd != wnd || dot != wdot || (dot && dp != int64(len(ipart))) || mant.Cmp(wmant) != 0 {
				t.Fatalf("%q: registers (mant=%v nd=%d dot=%v dp=%d neg=%v), literal says (mant=%v nd=%d dot=%v dp=%d neg=%v)", input, mant, nd, dot, dp, neg, wmant, wnd, wdot, len(ipart), wneg)
			}
			// exponent fold with the <10000 rule
			wesg, wev := int64(1), int64(0)
			if epart != "" {
				if epart[0] == '-' {
					wesg = -1
				}
				for _, c := range strings.TrimLeft(epart, "+-") {
					if wev < 10000 {
						wev = wev*10 + int64(c-'0')
					}
				}
			}
			if ev != wev || esg != wesg {
				t.Fatalf("%q: exponent registers (%d, %d), literal says (%d, %d)", input, ev, esg, wev, wesg)
			}
			// denotation: mant * 10^(point + esg*ev - min(nd,19)) against the exact rational value
			if wev < 10000 && mant.Sign() != 0 {
				point := nd
				if dot {
					point = dp
				}
				e10 := point + esg*ev - k
				exact, ok := new(big.Rat).SetString(strings.TrimPrefix(lit, "-"))
				if !ok || ev > 5000 {
					continue
				}
				scale := func(m *big.Int) *big.Rat {
					r := new(big.Rat).SetInt(m)
					p := new(big.Rat).SetInt(new(big.Int).Exp(big.NewInt(10), big.NewInt(abs64(e10)), nil))
					if e10 < 0 {
						return r.Quo(r, p)
					}
					return r.Mul(r, p)
				}
				lo, hi := scale(mant), scale(new(big.Int).Add(mant, big.NewInt(1)))
				if nd <= 19 {
					if lo.Cmp(exact) != 0 {
						t.Fatalf("%q: registers denote %v, literal is %v", input, lo, exact)
					}
				} else if !(lo.Cmp(exact) <= 0 && exact.Cmp(hi) < 0) {
					t.Fatalf("%q: literal %v outside [%v, %v)", input, exact, lo, hi)
				}
			}
		}
	}
}

func abs64(x int64) int64 {
	if x < 0 {
		return -x
	}
	return x
}

func TestOutputRegisters(t *testing.T) {
	pool := NewPool(4)
	defer pool.Close()
	tokens := []string{`""`, `"a"`, `"abc"`, `"a\nb"`, `"\"\\\/\b\f\n\r\t"`, `"A"`, `"éx"`, `"€"`, `"😀"`, `"x😀y"`,
		`"\uD83D\uDE00"`, `"\ud83d\ude00x"`, `"\uD83D\uD83D\uDE00"`, `"\uDBFF\uDFFF"`, `"\uD83D"`, `"\uDE00"`, `"\uD83Dx"`, `"\uD83DA"`, `"\uD83D😀"`, `"􏿿"`, `"𐀀"`, `"\u0000"`, `"é€😀"`, `"\uD83D\n"`, `"\uD83D\\uDE00"`}
	for _, tok := range tokens {
		for _, suffix := range []string{"", " ,"} {
			input := tok + suffix
			closing := int64(len(tok)) - 1 // position of the closing quote: content complete once it is about to be read
			var want string
			if err := json.Unmarshal([]byte(tok), &want); err != nil {
				t.Fatalf("test token %q: %v", tok, err)
			}
			vals, names := evalRegisters(t, pool, input, false, true, func(ex *Exec, arr *Term) []*Term {
				out := []*Term{ex.Rout(arr, I64(closing))}
				for j := 0; j < len(want)+1; j++ {
					out = append(out, ex.Robyte(arr, I64(int64(j))))
				}
				return out
			})
			n := bvInt(vals[names[0]]).Int64()
			if n != int64(len(want)) {
				t.Fatalf("%q: output length register %d, encoding/json decodes %d bytes (%q)", input, n, len(want), want)
			}
			for j := 0; j < len(want); j++ {
				if b := bvInt(vals[names[1+j]]).Int64(); b != int64(want[j]) {
					t.Fatalf("%q: output byte %d is %#x, encoding/json has %#x (%q)", input, j, b, want[j], want)
				}
			}
		}
	}
	t.Logf("%d string tokens evaluated", 2*len(tokens))
	_ = fmt.Sprint
}

// The Go-level string decoder used as the oracle of the bounded content check agrees with
// encoding/json on every string over a small alphabet (valid UTF-8 only: encoding/json replaces
// invalid bytes, the specification keeps them).
func TestSpecDecodeStringAgainstEncodingJSON(t *testing.T) {
	alpha := []byte(`"\u/bfnrtD8dC0a9é`)
	n := 0
	buf := make([]byte, 0, 8)
	var rec func(d int)
	rec = func(d int) {
		tok := append(append([]byte{'"'}, buf...), '"')
		var want string
		err := json.Unmarshal(tok, &want)
		got, ok := rjvSpecDecodeString(buf)
		validUTF8 := strings.ToValidUTF8(string(buf), "") == string(buf)
		if validUTF8 {
			n++
			if ok != (err == nil) {
				t.Fatalf("%q: spec decoder ok=%v, encoding/json err=%v", buf, ok, err)
			}
			if ok && string(got) != want {
				t.Fatalf("%q: spec decoder %q, encoding/json %q", buf, got, want)
			}
		}
		if d == 0 {
			return
		}
		for _, c := range alpha {
			buf = append(buf, c)
			rec(d - 1)
			buf = buf[:len(buf)-1]
		}
	}
	rec(5)
	for _, s := range []string{`😀`, `😀x`, `\uD83D😀`, `􏿿`, `\uD83D`, `\uDE00`, `\uD83Dx`, `\uD83D\n`, `\uD83D\\uDE00`, `𐀀`, `\u0000`, `\u007f\u0080߿ࠀ￿`} {
		var want string
		if err := json.Unmarshal([]byte(`"`+s+`"`), &want); err != nil {
			t.Fatal(err)
		}
		got, ok := rjvSpecDecodeString([]byte(s))
		if !ok || string(got) != want {
			t.Fatalf("%q: spec decoder %q (%v), encoding/json %q", s, got, ok, want)
		}
		n++
	}
	t.Logf("%d contents compared", n)
}
