package main

// Engine: loads /repo (typed AST + go/ssa NaiveForm), the contract files, package-level tables.

import (
	"fmt"
	"go/ast"
	"go/constant"
	"go/types"
	"math"
	"math/big"
	"os"
	"path/filepath"
	"strings"

	"golang.org/x/tools/go/packages"
	"golang.org/x/tools/go/ssa"
	"golang.org/x/tools/go/ssa/ssautil"
)

func mathFloat64bits(f float64) uint64 { return math.Float64bits(f) }

type Engine struct {
	repo      string
	prog      *ssa.Program
	pkgs      []*packages.Package
	spkgs     map[string]*ssa.Package // by package name
	contracts *ContractFile
	pool      *Pool
	tables    map[*ssa.Global]Value
	sliceLens map[string]int64
	tableSrc  map[string]*tableInfo
	refPkgs   []*packages.Package
	refProg   *ssa.Program
	refSSA    map[string]*ssa.Package
}

type tableInfo struct {
	Pkg  string
	Name string
	Vals []constant.Value
	Type types.Type
}

func LoadEngine(repo string, workers int) (*Engine, error) {
	cfg := &packages.Config{Mode: packages.LoadAllSyntax, Dir: repo, BuildFlags: []string{"-tags=verif"},
		Env: append(os.Environ(), "GOFLAGS=-mod=mod", "GOPROXY=off", "GOSUMDB=off", "GOTOOLCHAIN=local", "GOWORK=off")}
	pkgs, err := packages.Load(cfg, "./...")
	if err != nil {
		return nil, err
	}
	for _, p := range pkgs {
		if len(p.Errors) > 0 {
			return nil, fmt.Errorf("package %s does not type-check: %v", p.PkgPath, p.Errors[0])
		}
	}
	prog, spkgs := ssautil.AllPackages(pkgs, ssa.NaiveForm)
	prog.Build()
	eng := &Engine{repo: repo, prog: prog, pkgs: pkgs, spkgs: map[string]*ssa.Package{}, tables: map[*ssa.Global]Value{}, tableSrc: map[string]*tableInfo{}}
	for i, sp := range spkgs {
		if sp != nil && strings.HasPrefix(pkgs[i].PkgPath, "github.com/willabides/rjson") && !strings.Contains(pkgs[i].PkgPath, "benchmarks") {
			eng.spkgs[sp.Pkg.Name()] = sp
		}
	}
	cf, err := parseContracts(filepath.Join(repo, "verif_contracts.go"), filepath.Join(repo, "internal/fp/verif_contracts.go"))
	if err != nil {
		return nil, err
	}
	eng.contracts = cf
	eng.pool = NewPool(workers)
	eng.collectTables()
	// the pinned reference copy of strconv (Go 1.23.5), loaded through the same front end
	refDir := filepath.Join(verifDir(), "ref", "strconv")
	if _, err := os.Stat(refDir); err == nil {
		rcfg := &packages.Config{Mode: packages.LoadAllSyntax, Dir: refDir,
			Env: append(os.Environ(), "GOFLAGS=-mod=mod", "GOPROXY=off", "GOSUMDB=off", "GOTOOLCHAIN=local", "GOWORK=off")}
		if rp, err := packages.Load(rcfg, "."); err == nil && len(rp) > 0 && len(rp[0].Errors) == 0 {
			eng.refPkgs = rp
			rprog, rs := ssautil.AllPackages(rp, ssa.NaiveForm)
			rprog.Build()
			eng.refProg = rprog
			eng.refSSA = map[string]*ssa.Package{}
			for _, sp := range rs {
				if sp != nil {
					eng.refSSA[sp.Pkg.Name()] = sp
				}
			}
		}
	}
	return eng, nil
}

// collectTables evaluates package-level composite literals of constants through go/types.
func (eng *Engine) collectTables() {
	for _, p := range eng.pkgs {
		if _, ok := eng.spkgs[p.Name]; !ok {
			continue
		}
		for _, f := range p.Syntax {
			for _, d := range f.Decls {
				gd, ok := d.(*ast.GenDecl)
				if !ok {
					continue
				}
				for _, sp := range gd.Specs {
					vs, ok := sp.(*ast.ValueSpec)
					if !ok || len(vs.Values) != len(vs.Names) {
						continue
					}
					for k, nm := range vs.Names {
						cl, ok := vs.Values[k].(*ast.CompositeLit)
						if !ok {
							continue
						}
						obj := p.TypesInfo.Defs[nm]
						if obj == nil {
							continue
						}
						if _, isSlice := obj.Type().Underlying().(*types.Slice); isSlice {
							// a slice-typed table: its length is the literal's (package-level variables are
							// never stored to outside init: global store scan); contents stay unknown here
							n, okLen := int64(0), true
							for _, el := range cl.Elts {
								if _, kv := el.(*ast.KeyValueExpr); kv {
									okLen = false
								}
								n++
							}
							if okLen {
								if eng.sliceLens == nil {
									eng.sliceLens = map[string]int64{}
								}
								eng.sliceLens[p.Name+"."+nm.Name] = n
							}
							continue
						}
						at, ok := obj.Type().Underlying().(*types.Array)
						if !ok {
							continue
						}
						if sortOf(at.Elem()) == nil {
							continue
						}
						vals := make([]constant.Value, at.Len())
						idx := int64(0)
						good := true
						for _, el := range cl.Elts {
							var ve ast.Expr = el
							if kv, ok := el.(*ast.KeyValueExpr); ok {
								kt := p.TypesInfo.Types[kv.Key]
								if kt.Value == nil {
									good = false
									break
								}
								ki, _ := constant.Int64Val(constant.ToInt(kt.Value))
								idx = ki
								ve = kv.Value
							}
							vt := p.TypesInfo.Types[ve]
							if vt.Value == nil || idx >= at.Len() {
								good = false
								break
							}
							vals[idx] = vt.Value
							idx++
						}
						if good {
							eng.tableSrc[p.Name+"."+nm.Name] = &tableInfo{Pkg: p.Name, Name: nm.Name, Vals: vals, Type: obj.Type()}
						}
					}
				}
			}
		}
	}
}

func (eng *Engine) globalByName(pkg *types.Package, name string) *ssa.Global {
	sp := eng.prog.Package(pkg)
	if sp == nil {
		return nil
	}
	g, _ := sp.Members[name].(*ssa.Global)
	return g
}

// globalValue: value of a package-level variable. Constant tables get their contents; error
// sentinels are distinct non-nil constants; everything else is unconstrained.
func (eng *Engine) globalValue(ex *Exec, st *State, g *ssa.Global) Value {
	t := g.Type().(*types.Pointer).Elem()
	key := g.Pkg.Pkg.Name() + "." + g.Name()
	if ti, ok := eng.tableSrc[key]; ok {
		at := t.Underlying().(*types.Array)
		es := sortOf(at.Elem())
		vals := make([]*Term, at.Len())
		for k := range vals {
			v := ti.Vals[k]
			switch {
			case es.Kind == KBool:
				vals[k] = BoolC(v != nil && constant.BoolVal(v))
			default:
				if v == nil {
					vals[k] = BVI(es.W, 0)
				} else {
					iv, _ := new(big.Int).SetString(constant.ToInt(v).ExactString(), 10)
					vals[k] = BVC(es.W, iv)
				}
			}
		}
		return &ArrayV{Arr: TableTerm(key, ArraySort(BV(64), es), vals), Len: at.Len(), ElemT: at.Elem()}
	}
	// equivalence proofs: constant tables that were shown (row by row) to equal the reference are
	// the same uninterpreted symbol on both sides
	if ex.sharedTables != nil {
		if v := ex.sharedTable(st, g, t); v != nil {
			return v
		}
	}
	if stt, ok := t.Underlying().(*types.Struct); ok {
		if sv := eng.constStructGlobal(g, stt); sv != nil {
			return sv
		}
	}
	if n, ok := eng.sliceLens[key]; ok {
		if sl, isSlice := t.Underlying().(*types.Slice); isSlice {
			if v, ok := ex.freshValue(st, "global."+g.Name(), t, "global").(*SliceV); ok {
				_ = sl
				v.Len, v.Cap = I64(n), I64(n)
				v.Reg.Kind = "string" // immutable table data
				return v
			}
		}
	}
	if isErrorType(t) {
		n := g.Name()
		if g.Pkg.Pkg.Name() != "rjson" {
			n = g.Pkg.Pkg.Name() + "." + n
		}
		e := globalErr(n)
		st.assume(Not(Eq(e, NilErr)))
		return e
	}
	return ex.freshValue(st, "global."+g.Name(), t, "global")
}

func (eng *Engine) displayName(fn *ssa.Function) string {
	k := calleeKey(fn)
	return strings.TrimPrefix(k, "rjson.")
}

func (eng *Engine) lookupFunc(key string) *ssa.Function {
	return eng.lookupFuncIn(eng.prog, eng.spkgs, key)
}

// refGlobal: package-level variable of the reference package that refKey (pkg.Func) lives in.
func (eng *Engine) refGlobal(refKey, name string) *ssa.Global {
	i := strings.Index(refKey, ".")
	if i < 0 || eng.refSSA == nil {
		return nil
	}
	sp := eng.refSSA[refKey[:i]]
	if sp == nil {
		return nil
	}
	g, _ := sp.Members[name].(*ssa.Global)
	return g
}

func (eng *Engine) lookupFuncIn(prog *ssa.Program, pkgs map[string]*ssa.Package, key string) *ssa.Function {
	// key: pkg.Name or pkg.(*T).Name
	i := strings.Index(key, ".")
	if i < 0 {
		return nil
	}
	sp := pkgs[key[:i]]
	if sp == nil {
		return nil
	}
	name := key[i+1:]
	if strings.HasPrefix(name, "(") {
		j := strings.Index(name, ").")
		recv, meth := name[1:j], name[j+2:]
		ptr := strings.HasPrefix(recv, "*")
		recv = strings.TrimPrefix(recv, "*")
		tn, ok := sp.Members[recv].(*ssa.Type)
		if !ok {
			return nil
		}
		var T types.Type = tn.Type()
		if ptr {
			T = types.NewPointer(T)
		}
		ms := prog.MethodSets.MethodSet(T)
		for k := 0; k < ms.Len(); k++ {
			if ms.At(k).Obj().Name() == meth {
				return prog.MethodValue(ms.At(k))
			}
		}
		return nil
	}
	return sp.Func(name)
}

func (eng *Engine) newExec(fn *ssa.Function, fc *FuncContract, mode string) *Exec {
	ex := &Exec{eng: eng, fn: fn, fc: fc, mode: mode}
	ex.cells = cellNames(fn)
	ex.mutable = mutableCells(fn)
	for _, b := range fn.Blocks {
		for _, ins := range b.Instrs {
			if a, ok := ins.(*ssa.Alloc); ok {
				ex.allocs = append(ex.allocs, a)
			}
		}
	}
	ex.maxPaths = 200000
	ex.storedConsts()
	return ex
}

// resultEnv: environment for postconditions at a return: parameters are entry values, result
// names are the returned values, *v and friends read the final heap, old(...) the entry heap.
func (ex *Exec) resultEnv(pe *PathEnd, prove bool) *Env {
	vars := map[string]TV{}
	for _, p := range ex.fn.Params {
		vars[p.Name()] = TV{V: ex.params[p.Name()], Signed: isSigned(p.Type())}
	}
	rs := ex.fn.Signature.Results()
	for j := 0; j < rs.Len() && j < len(pe.Results); j++ {
		name := fmt.Sprintf("r%d", j)
		if ex.fc != nil && j < len(ex.fc.Results) {
			name = ex.fc.Results[j]
		}
		vars[name] = TV{V: pe.Results[j], Signed: isSigned(rs.At(j).Type())}
	}
	env := &Env{ex: ex, st: pe.St, vars: vars, prove: prove}
	if ex.fc != nil {
		env.lets = letMap(ex.fc)
	}
	oldVars := map[string]TV{}
	for _, p := range ex.fn.Params {
		oldVars[p.Name()] = vars[p.Name()]
	}
	env.old = &Env{ex: ex, st: ex.entryHeap, vars: oldVars, lets: env.lets}
	return env
}

// sharedTable models a package-level constant table as a symbol shared between the repository
// function and the reference function (only used by the equivalence driver, and only for tables
// whose row-by-row equality with the reference is itself an obligation of the same check).
func (ex *Exec) sharedTable(st *State, g *ssa.Global, t types.Type) Value {
	name := g.Name()
	if !ex.sharedTables[name] {
		return nil
	}
	var elemSort func(t types.Type) *Sort
	elemSort = func(t types.Type) *Sort {
		if at, ok := t.Underlying().(*types.Array); ok {
			es := elemSort(at.Elem())
			if es == nil {
				return nil
			}
			return ArraySort(BV(64), es)
		}
		return sortOf(t)
	}
	switch u := t.Underlying().(type) {
	case *types.Array:
		so := elemSort(t)
		if so == nil {
			return nil
		}
		return &ArrayV{Arr: Var("tbl.shared."+name, so), Len: u.Len(), ElemT: u.Elem()}
	case *types.Slice:
		es := sortOf(u.Elem())
		n, ok := ex.sharedLens[name]
		if !ok {
			return nil
		}
		if stt, isStruct := u.Elem().Underlying().(*types.Struct); isStruct && es == nil {
			ex.sharedRegMu.Lock()
			r := ex.sharedRegs[name]
			if r == nil {
				r = &Region{ID: -100 - len(ex.sharedRegs), Name: "tbl." + name, Elem: BV(8), Kind: "string"}
				ex.sharedRegs[name] = r
			}
			ex.sharedRegMu.Unlock()
			st.store[r] = &TableV{Name: name, T: stt, N: n}
			return &SliceV{Reg: r, Off: I64(0), Len: I64(n), Cap: I64(n), ElemT: u.Elem()}
		}
		if es == nil {
			return nil
		}
		ex.sharedRegMu.Lock()
		r := ex.sharedRegs[name]
		if r == nil {
			r = &Region{ID: -100 - len(ex.sharedRegs), Name: "tbl." + name, Elem: es, Kind: "string"}
			ex.sharedRegs[name] = r
		}
		ex.sharedRegMu.Unlock()
		st.store[r] = &ArrayV{Arr: Var("tbl.shared."+name+".arr", ArraySort(BV(64), es))}
		return &SliceV{Reg: r, Off: I64(0), Len: I64(n), Cap: I64(n), ElemT: u.Elem()}
	}
	return nil
}

// constStructGlobal: a package-level struct variable initialised with a composite literal of
// constants (e.g. strconv's float64info) is given its initial value; that nothing stores into
// package-level variables is a separate obligation (global store scan).
func (eng *Engine) constStructGlobal(g *ssa.Global, stt *types.Struct) Value {
	for _, set := range [][]*packages.Package{eng.pkgs, eng.refPkgs} {
		for _, p := range set {
			if p.Types != g.Pkg.Pkg {
				continue
			}
			cl := findVarLit(p, g.Name())
			if cl == nil {
				return nil
			}
			sv := &StructV{T: stt}
			for i := 0; i < stt.NumFields(); i++ {
				sv.Fields = append(sv.Fields, nil)
			}
			for i, el := range cl.Elts {
				idx := i
				var ve ast.Expr = el
				if kv, ok := el.(*ast.KeyValueExpr); ok {
					ve = kv.Value
					if id, ok := kv.Key.(*ast.Ident); ok {
						for f := 0; f < stt.NumFields(); f++ {
							if stt.Field(f).Name() == id.Name {
								idx = f
							}
						}
					}
				}
				tv := p.TypesInfo.Types[ve]
				so := sortOf(stt.Field(idx).Type())
				if tv.Value == nil || so == nil || so.Kind != KBV {
					return nil
				}
				iv, _ := new(big.Int).SetString(constant.ToInt(tv.Value).ExactString(), 10)
				sv.Fields[idx] = BVC(so.W, iv)
			}
			for i := range sv.Fields {
				if sv.Fields[i] == nil {
					so := sortOf(stt.Field(i).Type())
					if so == nil || so.Kind != KBV {
						return nil
					}
					sv.Fields[i] = BVI(so.W, 0)
				}
			}
			return sv
		}
	}
	return nil
}
