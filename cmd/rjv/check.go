package main

// `rjv check <property>`: run the proofs of a property's cone, write evidence, print
// VIOLATION / KNOWN-FINDING lines.

import (
	"encoding/json"
	"flag"
	"fmt"
	"os"
	"path/filepath"
	"runtime"
	"sort"
	"strconv"
	"strings"
	"sync"
	"time"
)

type finding struct {
	Kind, Prop, Obligation, Text string
}

func loadFindings(path string) []finding {
	b, err := os.ReadFile(path)
	if err != nil {
		return nil
	}
	var out []finding
	for _, l := range strings.Split(string(b), "\n") {
		l = strings.TrimSpace(l)
		if l == "" || strings.HasPrefix(l, "#") {
			continue
		}
		var f finding
		switch {
		case strings.HasPrefix(l, "finding:"):
			f.Kind = "finding"
			l = strings.TrimSpace(strings.TrimPrefix(l, "finding:"))
		case strings.HasPrefix(l, "fixed:"):
			f.Kind = "fixed"
			l = strings.TrimSpace(strings.TrimPrefix(l, "fixed:"))
		default:
			continue
		}
		for _, w := range strings.Fields(l) {
			if strings.HasPrefix(w, "property=") {
				f.Prop = strings.TrimPrefix(w, "property=")
			}
			if strings.HasPrefix(w, "obligation=") {
				f.Obligation = strings.TrimPrefix(w, "obligation=")
			}
		}
		f.Text = l
		out = append(out, f)
	}
	return out
}

func verifDir() string {
	if d := os.Getenv("RJV_VERIF"); d != "" {
		return d
	}
	return "/verif"
}

type proofKey struct{ key, mode, driver string }

type Runner struct {
	eng      *Engine
	thorough bool
	quickMs  int
	slowMs   int
	mu       sync.Mutex
	proofs   map[proofKey]*FuncProof
}

func (r *Runner) prove(j Job) *FuncProof {
	k := proofKey{j.Key, j.Mode, j.Driver}
	r.mu.Lock()
	if fp, ok := r.proofs[k]; ok {
		r.mu.Unlock()
		return fp
	}
	r.mu.Unlock()
	fn := r.eng.lookupFunc(j.Key)
	if fn == nil {
		return nil
	}
	fc := r.eng.contracts.Funcs[j.Key]
	opts := ProofOpts{Mode: j.Mode, QuickMs: r.quickMs, SlowMs: r.slowMs, Thorough: r.thorough, Sim: j.Sim, Rel: j.Rel, Alloc: j.Alloc, SimAs: j.SimAs}
	if j.Only != "" {
		opts.OnlyKinds = map[string]bool{j.Only: true}
	}
	configureDriver(r.eng, j, &opts)
	fp := r.eng.NewFuncProof(fn, fc, opts)
	fp.Run()
	r.mu.Lock()
	r.proofs[k] = fp
	r.mu.Unlock()
	return fp
}

func entryBelongs(p *Property, e *LedgerEntry) bool {
	if p.Kinds != nil && !p.Kinds[e.Kind] {
		return false
	}
	if i := strings.LastIndex(e.Name, "["); i >= 0 && strings.HasSuffix(e.Name, "]") && (e.Kind == "ensures" || e.Kind == "inv-init" || e.Kind == "inv-preserved") {
		labels := strings.Split(e.Name[i+1:len(e.Name)-1], ",")
		for _, l := range labels {
			if strings.TrimSpace(l) == p.ID {
				return true
			}
		}
		return false
	}
	return true
}

type evidence struct {
	PropertyID  string                 `json:"property_id"`
	Tier        string                 `json:"tier"`
	Seed        int                    `json:"seed"`
	Level       string                 `json:"level"`
	Coverage    map[string]interface{} `json:"coverage"`
	Assumptions []string               `json:"assumptions"`
	WallS       float64                `json:"wall_s"`
	Violations  int                    `json:"violations"`
}

func sanitizeFile(s string) string {
	var sb strings.Builder
	for _, c := range s {
		if c >= 'a' && c <= 'z' || c >= 'A' && c <= 'Z' || c >= '0' && c <= '9' || c == '.' || c == '-' || c == '_' {
			sb.WriteRune(c)
		} else {
			sb.WriteByte('_')
		}
	}
	r := sb.String()
	if len(r) > 150 {
		r = r[:150]
	}
	return r
}

func cmdCheck(args []string) {
	fs := flag.NewFlagSet("check", flag.ExitOnError)
	tier := fs.String("tier", "", "quick|thorough")
	var props []string
	for i, a := range args {
		if a == "--replay" && i+1 < len(args) {
			os.Exit(cmdReplay(args[i+1]))
		}
	}
	// allow "check C10 --tier quick"
	var rest []string
	for _, a := range args {
		if strings.HasPrefix(a, "C") && len(a) <= 4 && !strings.HasPrefix(a, "-") {
			props = append(props, a)
		} else {
			rest = append(rest, a)
		}
	}
	fs.Parse(rest)
	if *tier == "" {
		*tier = os.Getenv("VERIF_TIER")
	}
	if *tier == "" {
		*tier = "quick"
	}
	seed, _ := strconv.Atoi(os.Getenv("VERIF_SEED"))
	if len(props) != 1 {
		fmt.Fprintln(os.Stderr, "check: exactly one property id expected")
		os.Exit(2)
	}
	id := props[0]
	p := properties()[id]
	if p == nil {
		fmt.Fprintf(os.Stderr, "check: property %s is not claimed (see MANIFEST.json not_applicable)\n", id)
		os.Exit(2)
	}
	t0 := time.Now()
	eng, err := LoadEngine(repoDir(), runtime.NumCPU())
	if err != nil {
		// the tree does not build: that is not a property violation, the check cannot run
		fmt.Fprintln(os.Stderr, "rjv: cannot load /repo:", err)
		os.Exit(2)
	}
	defer eng.pool.Close()
	r := &Runner{eng: eng, thorough: *tier == "thorough", quickMs: 5000, slowMs: 30000, proofs: map[proofKey]*FuncProof{}}
	if r.thorough {
		r.slowMs = 60000
	}
	code := runProperty(r, p, *tier, seed, t0)
	eng.pool.Close()
	os.Exit(code)
}

func runProperty(r *Runner, p *Property, tier string, seed int, t0 time.Time) int {
	eng := r.eng
	var entries []*LedgerEntry
	var fstats []ProofStats
	var missing []string
	var unsupported []string
	var broken []string
	controls, controlsFeasible := 0, 0
	proofOf := map[*LedgerEntry]*FuncProof{}
	// run jobs, a few functions at a time (each proof already fans out over the solver pool)
	type res struct {
		j  Job
		fp *FuncProof
	}
	results := make([]res, len(p.Jobs))
	sem := make(chan struct{}, 3)
	var wg sync.WaitGroup
	for i, j := range p.Jobs {
		i, j := i, j
		wg.Add(1)
		sem <- struct{}{}
		go func() {
			defer wg.Done()
			defer func() { <-sem }()
			results[i] = res{j, r.prove(j)}
		}()
	}
	wg.Wait()
	for _, rs := range results {
		if rs.fp == nil {
			missing = append(missing, rs.j.Key)
			continue
		}
		fp := rs.fp
		fstats = append(fstats, fp.stats)
		for _, u := range fp.stats.Unsupported {
			unsupported = append(unsupported, fp.stats.Function+": "+u)
		}
		n := 0
		for _, e := range fp.ledger.Sorted() {
			if entryBelongs(p, e) {
				entries = append(entries, e)
				proofOf[e] = fp
				n++
			}
		}
		if n == 0 && rs.j.Only == "" {
			broken = append(broken, fmt.Sprintf("%s: no obligations generated for %s", rs.j.Key, p.ID))
		}
		if rs.j.Only != "" {
			continue
		}
		c, f := fp.Controls(tier == "thorough")
		controls += c
		controlsFeasible += f
		if c > 0 && f == 0 {
			broken = append(broken, fmt.Sprintf("%s: no feasible path among %d sampled (hypotheses contradictory?)", rs.j.Key, c))
		}
	}
	extraEntries, extraBroken := runExtras(r, p, tier)
	entries = append(entries, extraEntries...)
	broken = append(broken, extraBroken...)
	for _, m := range missing {
		// a function under contract that no longer exists: every obligation about it is undischarged
		entries = append(entries, &LedgerEntry{Name: m + "/function-under-contract-exists", Kind: "structure", Fn: m, Status: "failed", Instances: 1,
			Detail: "the function named in the contract file was not found in /repo"})
	}
	// findings
	findings := loadFindings(filepath.Join(verifDir(), "known_findings.txt"))
	total, discharged := 0, 0
	violations := 0
	var known []string
	backends := map[string]int{}
	var lines []string
	replayDir := filepath.Join(outDir(), "replays", p.ID)
	var bounded []interface{}
	for _, e := range entries {
		if e.Kind == "bounded" {
			// bounded stand-ins are reported on their own and never counted as discharged obligations
			bounded = append(bounded, map[string]interface{}{"check": e.Name, "status": e.Status, "coverage": e.Detail, "labelled": "bounded stand-in, not a proof"})
			switch e.Status {
			case "discharged":
			case "failed":
				violations++
				lines = append(lines, fmt.Sprintf("VIOLATION property=%s replay=%s", p.ID, e.replayInput))
			default:
				broken = append(broken, e.Name+": "+e.Detail)
			}
			continue
		}
		total++
		if e.Status == "discharged" {
			discharged++
			backends[e.Solver]++
			continue
		}
		matched := false
		for _, f := range findings {
			if f.Kind == "finding" && f.Prop == p.ID && findingMatches(f.Obligation, e.Name) {
				matched = true
				known = append(known, e.Name)
				txt := strings.TrimSpace(strings.TrimPrefix(f.Text, "property="+p.ID))
				kl := fmt.Sprintf("KNOWN-FINDING: property=%s %s", p.ID, txt)
				dup := false
				for _, l := range lines {
					if l == kl {
						dup = true
					}
				}
				if !dup {
					lines = append(lines, kl)
				}
			}
		}
		if matched {
			// recorded defects are reported on their own and are not part of the discharged claim
			total--
			continue
		}
		violations++
		os.MkdirAll(replayDir, 0o755)
		base := filepath.Join(replayDir, sanitizeFile(e.Name))
		rp := writeReplay(eng, p, e, proofOf[e], base)
		suffix := ""
		if !rp.Reproduced {
			suffix = " no-failing-input-found"
		}
		lines = append(lines, fmt.Sprintf("VIOLATION property=%s replay=%s%s", p.ID, rp.Path, suffix))
	}
	if total == 0 {
		broken = append(broken, "no obligations generated for "+p.ID)
	}
	for _, b := range broken {
		lines = append(lines, "BROKEN-VERIFIER "+b)
	}
	// evidence
	sort.Slice(fstats, func(i, j int) bool { return fstats[i].Function < fstats[j].Function })
	var fnames []string
	cuts, paths, queries := 0, 0, 0
	for _, s := range fstats {
		fnames = append(fnames, s.Function+"["+s.Mode+"]")
		cuts += s.CutPoints
		paths += s.Paths
		queries += s.Queries
	}
	var samples []interface{}
	step := 1
	if len(entries) > 8 {
		step = len(entries) / 8
	}
	for i := 0; i < len(entries) && len(samples) < 8; i += step {
		e := entries[i]
		samples = append(samples, map[string]interface{}{"obligation": e.Name, "kind": e.Kind, "status": e.Status, "solver": e.Solver, "path_instances": e.Instances, "solver_seconds": round3(e.Secs)})
	}
	var failed []interface{}
	for _, e := range entries {
		if e.Status != "discharged" {
			failed = append(failed, map[string]interface{}{"obligation": e.Name, "status": e.Status, "detail": e.Detail, "model": e.Model})
		}
	}
	eng.pool.mu.Lock()
	solverStats := map[string]interface{}{}
	solverSecs := 0.0
	for k, v := range eng.pool.stats {
		solverStats[k] = map[string]interface{}{"queries": v.Queries, "unsat": v.Unsat, "sat": v.Sat, "other": v.Other, "seconds": round3(v.Secs)}
		solverSecs += v.Secs
	}
	eng.pool.mu.Unlock()
	level := p.Level
	cov := map[string]interface{}{
		"obligations":              total,
		"discharged":               discharged,
		"checker_cmd":              fmt.Sprintf("cd /verif && ./check %s --tier %s", p.ID, tier),
		"trusted_base":             append(append([]string{}, commonTrusted...), p.Trusted...),
		"functions_under_contract": fnames,
		"function_stats":           fstats,
		"cut_points":               cuts,
		"paths":                    paths,
		"solver_queries":           queries,
		"solver_seconds":           round3(solverSecs),
		"backends":                 solverStats,
		"discharged_by_backend":    backends,
		"samples":                  samples,
		"undischarged":             failed,
		"known_findings_matched":   known,
		"obligations_failing_as_recorded_known_findings": len(known),
		"vacuity_controls":           controls,
		"vacuity_controls_feasible":  controlsFeasible,
		"unsupported_or_abstracted":  dedup(unsupported),
		"contract_files":             eng.contracts.Files,
		"contract_lines":             eng.contracts.Lines,
		"second_solver_confirmation": tier == "thorough",
		"integer_model":              "Go int/uint64 as 64-bit two's-complement bit-vectors (exact on amd64); no mathematical integers",
	}
	if p.Subset != "" {
		cov["proved_subset"] = p.Subset
	}
	if len(bounded) > 0 {
		cov["bounded_standins"] = bounded
	}
	if level != "proof" || total == 0 {
		level = "other"
		cov["explanation"] = p.Explain
		if p.Explain == "" {
			cov["explanation"] = "no obligations were generated"
		}
	}
	ev := evidence{PropertyID: p.ID, Tier: tier, Seed: seed, Level: level, Coverage: cov,
		Assumptions: append(append([]string{}, commonAssume...), p.Assume...), WallS: round3(time.Since(t0).Seconds()), Violations: violations}
	evDir := filepath.Join(outDir(), "evidence")
	os.MkdirAll(evDir, 0o755)
	b, _ := json.MarshalIndent(ev, "", " ")
	os.WriteFile(filepath.Join(evDir, p.ID+".json"), append(b, '\n'), 0o644)
	fmt.Printf("%s [%s]: %d/%d obligations discharged, %d functions, %d cut points, %d paths, %d solver queries, %.1fs\n",
		p.ID, tier, discharged, total, len(fstats), cuts, paths, queries, time.Since(t0).Seconds())
	for _, l := range lines {
		fmt.Println(l)
	}
	if len(broken) > 0 || violations > 0 {
		return 1
	}
	return 0
}

func round3(f float64) float64 { return float64(int64(f*1000+0.5)) / 1000 }

func dedup(in []string) []string {
	seen := map[string]bool{}
	out := []string{}
	for _, s := range in {
		if !seen[s] {
			seen[s] = true
			out = append(out, s)
		}
	}
	sort.Strings(out)
	return out
}

// Controls: vacuity guard. The hypotheses of sampled paths (source invariant + path condition)
// must be satisfiable for at least some paths; returns (#sampled, #feasible).
func (fp *FuncProof) Controls(all bool) (int, int) {
	var sample []*PathEnd
	if all || len(fp.paths) <= 24 {
		sample = fp.paths
	} else {
		step := len(fp.paths) / 24
		for i := 0; i < len(fp.paths); i += step {
			sample = append(sample, fp.paths[i])
		}
		// always include entry paths and success returns
		for _, pe := range fp.paths {
			if pe.From == nil && len(sample) < 48 {
				sample = append(sample, pe)
			}
		}
	}
	var wg sync.WaitGroup
	var mu sync.Mutex
	feasible := 0
	for _, pe := range sample {
		pe := pe
		wg.Add(1)
		go func() {
			defer wg.Done()
			hs, qs := fp.startHyps(pe)
			hs = append(hs, pe.St.pc...)
			qs = append(qs, pe.St.qfacts...)
			res, _, _ := fp.query("control", hs, qs, []*Term{False}, nil)
			if res.Status == "sat" {
				mu.Lock()
				feasible++
				mu.Unlock()
			}
		}()
	}
	wg.Wait()
	return len(sample), feasible
}

type replayResult struct {
	Path       string
	Reproduced bool
}

// writeReplay records the failed obligation, the solver's output and model; when the model is a
// complete input of the function (path from function entry) it is also turned into a Go test
// and run against the real package.
func writeReplay(eng *Engine, p *Property, e *LedgerEntry, fp *FuncProof, base string) replayResult {
	info := map[string]interface{}{
		"property":    p.ID,
		"obligation":  e.Name,
		"kind":        e.Kind,
		"function":    e.Fn,
		"status":      e.Status,
		"solver":      e.Solver,
		"detail":      e.Detail,
		"model":       e.Model,
		"source_line": e.Line,
	}
	if e.failQ != nil {
		body, _ := e.failQ.Build(0)
		info["smt_query"] = body
		info["solver_output"] = e.failRes.Raw
	}
	rr := replayResult{Path: base + ".json"}
	if fp != nil || p.ID == "C04" {
		if test, ok := concreteReplay(eng, p, e, fp, base); ok {
			info["replay_test"] = test.File
			info["replay_cmd"] = test.Cmd
			info["replay_output"] = test.Output
			info["replay_input"] = test.Input
			rr.Reproduced = test.Reproduced
			if test.Reproduced {
				rr.Path = test.File
			}
		}
	}
	info["reproduced_on_real_code"] = rr.Reproduced
	b, _ := json.MarshalIndent(info, "", " ")
	os.WriteFile(base+".json", append(b, '\n'), 0o644)
	return rr
}

// findingMatches: obligation names in known_findings.txt may use `*` for the cut-point component
// (one defect shows up at every cut point from which the same exit is reached).
func findingMatches(pat, name string) bool {
	if !strings.Contains(pat, "*") {
		return pat == name
	}
	parts := strings.Split(pat, "*")
	pos := 0
	for i, part := range parts {
		j := strings.Index(name[pos:], part)
		if j < 0 || (i == 0 && j != 0) {
			return false
		}
		pos += j + len(part)
	}
	return strings.HasSuffix(name, parts[len(parts)-1])
}

// outDir: where evidence and replay files go: /verif, unless the run is against a scratch copy of
// the repository (RJV_REPO), whose results must never be mistaken for evidence about /repo.
func outDir() string {
	if d := os.Getenv("RJV_REPO"); d != "" && d != "/repo" {
		o := filepath.Join(os.TempDir(), "rjv-scratch-out")
		os.MkdirAll(o, 0o755)
		return o
	}
	return verifDir()
}
