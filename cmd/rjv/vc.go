package main

// Verification conditions: assembling hypotheses, instantiating bounded quantified facts at the
// index terms of the VC, and sending queries to the solver pool.

import (
	"fmt"
	"sort"
	"strings"
	"sync"
)

// root of an array term below any stores
func arrRoot(a *Term) *Term {
	for a.Op == "store" {
		a = a.Args[0]
	}
	return a
}

func containsTerm(t, x *Term) bool {
	seen := map[int]bool{}
	var rec func(t *Term) bool
	rec = func(t *Term) bool {
		if t == x {
			return true
		}
		if seen[t.id] {
			return false
		}
		seen[t.id] = true
		for _, a := range t.Args {
			if rec(a) {
				return true
			}
		}
		return false
	}
	return rec(t)
}

type qpattern struct {
	kind string // select | app
	root *Term  // array root (select)
	name string // app name
	argi int    // app argument position holding the bound variable
	off  *Term  // index == BV + off
}

func patternsOf(q *QFact) []qpattern {
	if q.OnlySelect {
		return []qpattern{{kind: "select", root: q.SelectRoot, off: I64(0)}}
	}
	var ps []qpattern
	zero := map[*Term]*Term{q.BV: I64(0)}
	seen := map[int]bool{}
	var walk func(t *Term)
	walk = func(t *Term) {
		if seen[t.id] {
			return
		}
		seen[t.id] = true
		if t.Op == "select" && containsTerm(t.Args[1], q.BV) && t.Args[1].Sort == q.BV.Sort {
			idx := t.Args[1]
			off := Subst(idx, zero)
			if Add(q.BV, off) == idx && !containsTerm(t.Args[0], q.BV) {
				ps = append(ps, qpattern{kind: "select", root: arrRoot(t.Args[0]), off: off})
			}
		}
		if t.Op == "app" {
			for k, a := range t.Args {
				if a.Sort == q.BV.Sort && containsTerm(a, q.BV) {
					off := Subst(a, zero)
					if Add(q.BV, off) == a {
						ps = append(ps, qpattern{kind: "app", name: t.Name, argi: k, off: off})
					}
				}
			}
		}
		for _, a := range t.Args {
			walk(a)
		}
	}
	walk(q.Body)
	if q.Guard != nil {
		walk(q.Guard)
	}
	return ps
}

// instantiate returns ground instances of the quantified facts relevant to the given terms.
func instantiate(qs []*QFact, terms []*Term, rounds int) []*Term {
	if len(qs) == 0 {
		return nil
	}
	type key struct{ q, v int }
	done := map[key]bool{}
	var out []*Term
	pool := append([]*Term{}, terms...)
	pats := make([][]qpattern, len(qs))
	for i, q := range qs {
		pats[i] = patternsOf(q)
	}
	for r := 0; r < rounds; r++ {
		// collect triggers in the pool
		type sel struct{ root, idx *Term }
		var sels []sel
		apps := map[string][]*Term{}
		seen := map[int]bool{}
		var walk func(t *Term)
		walk = func(t *Term) {
			if seen[t.id] {
				return
			}
			seen[t.id] = true
			if t.Op == "select" {
				sels = append(sels, sel{arrRoot(t.Args[0]), t.Args[1]})
			}
			if t.Op == "app" {
				apps[t.Name] = append(apps[t.Name], t)
			}
			for _, a := range t.Args {
				walk(a)
			}
		}
		for _, t := range pool {
			walk(t)
		}
		var added []*Term
		for qi, q := range qs {
			var cands []*Term
			for _, p := range pats[qi] {
				switch p.kind {
				case "select":
					for _, s := range sels {
						if s.root == p.root && s.idx.Sort == q.BV.Sort {
							cands = append(cands, Sub(s.idx, p.off))
						}
					}
				case "app":
					for _, a := range apps[p.name] {
						if p.argi < len(a.Args) && a.Args[p.argi].Sort == q.BV.Sort {
							cands = append(cands, Sub(a.Args[p.argi], p.off))
						}
					}
				}
			}
			cands = append(cands, q.Seeds...)
			for _, v := range cands {
				if containsTerm(v, q.BV) {
					continue
				}
				k := key{qi, v.id}
				if done[k] {
					continue
				}
				done[k] = true
				m := map[*Term]*Term{q.BV: v}
				body := Subst(q.Body, m)
				g := True
				if q.Guard != nil {
					g = Subst(q.Guard, m)
				}
				if q.Lo != nil {
					g = And(g, Sle(Subst(q.Lo, m), v))
				}
				if q.Hi != nil {
					g = And(g, Slt(v, Subst(q.Hi, m)))
				}
				inst := Implies(g, body)
				if inst != True {
					added = append(added, inst)
				}
			}
		}
		if len(added) == 0 {
			break
		}
		out = append(out, added...)
		pool = added
	}
	return out
}

// Query is hyps ==> goal, to be refuted by the solver.
type Query struct {
	Name   string
	Hyps   []*Term
	QFacts []*QFact
	Goals  []*Term // conjunction
	Values []*Term // terms to evaluate in a counter-model
}

func errAxioms(ts []*Term) []*Term {
	var errs []*Term
	seen := map[int]bool{}
	for _, v := range FreeVars(ts...) {
		if v.Sort == ErrSort && (strings.HasPrefix(v.Name, "glob.") || v == NilErr) && !seen[v.id] {
			seen[v.id] = true
			errs = append(errs, v)
		}
	}
	var out []*Term
	for i := 0; i < len(errs); i++ {
		for j := i + 1; j < len(errs); j++ {
			out = append(out, Not(Eq(errs[i], errs[j])))
		}
	}
	return out
}

// Build renders the query as an SMT-LIB script body (without check-sat).
func (q *Query) Build(extraRounds int) (string, []string) {
	goal := And(q.Goals...)
	all := append([]*Term{}, q.Hyps...)
	all = append(all, goal)
	inst := instantiate(q.QFacts, all, 2+extraRounds)
	all = append(all, inst...)
	all = append(all, errAxioms(all)...)
	sc := NewScript()
	neg := Not(goal)
	hy := append([]*Term{}, q.Hyps...)
	hy = append(hy, inst...)
	hy = append(hy, errAxioms(append(all, neg))...)
	sc.Prepare(hy...)
	sc.Prepare(neg)
	sc.Prepare(q.Values...)
	var asserts []string
	for _, h := range hy {
		if h == True {
			continue
		}
		asserts = append(asserts, "(assert "+sc.Ref(h)+")")
	}
	asserts = append(asserts, "(assert "+sc.Ref(neg)+")")
	var vals []string
	for _, v := range q.Values {
		vals = append(vals, sc.Ref(v))
	}
	var sb strings.Builder
	for _, l := range sc.Lines() {
		sb.WriteString(l)
		sb.WriteByte('\n')
	}
	for _, a := range asserts {
		sb.WriteString(a)
		sb.WriteByte('\n')
	}
	return sb.String(), vals
}

// Ledger entry: one named obligation, possibly with several path instances.
type LedgerEntry struct {
	undecidedQs   []*Query // instances on which every solver gave up (retried with a long timeout at the end)
	alphaOverride []byte   // bounded stand-ins: alphabet of the enumeration
	replayInput   string
	Name          string   `json:"name"`
	Kind          string   `json:"kind"`
	Fn            string   `json:"function"`
	Instances     int      `json:"instances"`
	Status        string   `json:"status"` // discharged | failed | undecided
	Solver        string   `json:"solver"`
	Secs          float64  `json:"solver_seconds"`
	Trivial       int      `json:"trivial_instances"`
	Detail        string   `json:"detail,omitempty"`
	Model         []string `json:"model,omitempty"`
	Confirmed     string   `json:"confirmed_by,omitempty"`
	Line          int      `json:"line,omitempty"`
	failQ         *Query
	failRes       Result
}

type Ledger struct {
	entries map[string]*LedgerEntry
	order   []string
}

func NewLedger() *Ledger { return &Ledger{entries: map[string]*LedgerEntry{}} }

func (l *Ledger) get(name, kind, fn string) *LedgerEntry {
	e, ok := l.entries[name]
	if !ok {
		e = &LedgerEntry{Name: name, Kind: kind, Fn: fn, Status: "discharged"}
		l.entries[name] = e
		l.order = append(l.order, name)
	}
	return e
}

func (l *Ledger) Sorted() []*LedgerEntry {
	names := append([]string{}, l.order...)
	sort.Strings(names)
	var out []*LedgerEntry
	for _, n := range names {
		out = append(out, l.entries[n])
	}
	return out
}

func (l *Ledger) Counts() (total, discharged int) {
	for _, e := range l.entries {
		total++
		if e.Status == "discharged" {
			discharged++
		}
	}
	return
}

func fmtModel(vals []*Term, strs []string, res Result) []string {
	var out []string
	for i, v := range vals {
		if i < len(strs) {
			if x, ok := res.Values[strs[i]]; ok {
				out = append(out, fmt.Sprintf("%s = %s", v.String(), x))
			}
		}
	}
	return out
}

// heavyTerm: does the term mention the specification run (R.* / spec.* applications)?
var heavyCache sync.Map

func heavyTerm(t *Term) bool {
	if v, ok := heavyCache.Load(t.id); ok {
		return v.(bool)
	}
	res := false
	if t.Op == "app" && (strings.HasPrefix(t.Name, "R") && strings.Contains(t.Name, ".") && strings.Contains(t.Name, "$") || strings.HasPrefix(t.Name, "spec.")) {
		res = true
	} else {
		for _, a := range t.Args {
			if heavyTerm(a) {
				res = true
				break
			}
		}
	}
	heavyCache.Store(t.id, res)
	return res
}

func lightHyps(hs []*Term, qs []*QFact) ([]*Term, []*QFact) {
	var lh []*Term
	for _, h := range hs {
		if h.Op == "and" {
			// keep the light conjuncts of a mixed conjunction
			var keep []*Term
			for _, c := range h.Args {
				if !heavyTerm(c) {
					keep = append(keep, c)
				}
			}
			if len(keep) > 0 {
				lh = append(lh, And(keep...))
			}
			continue
		}
		if !heavyTerm(h) {
			lh = append(lh, h)
		}
	}
	var lq []*QFact
	for _, q := range qs {
		if q.Name == "fold" || q.Name == "absorb" || q.Name == "stackrel" || q.Name == "DVstep" || q.Name == "DVsticky" {
			continue
		}
		if heavyTerm(q.Body) || (q.Guard != nil && heavyTerm(q.Guard)) {
			continue
		}
		lq = append(lq, q)
	}
	return lh, lq
}

// hypTiers returns progressively larger hypothesis sets (each a subset of the full one, so a
// proof from any of them is sound): without the specification run and the expensive axiom
// schemas; without the 128-bit decimal-value step axioms; everything.
func hypTiers(hs []*Term, qs []*QFact, goal *Term) [][2]interface{} {
	var out [][2]interface{}
	hasHeavy := false
	for _, h := range hs {
		if heavyTerm(h) {
			hasHeavy = true
			break
		}
	}
	special := func(n string) bool {
		return n == "fold" || n == "absorb" || n == "stackrel" || n == "DVstep" || n == "DVsticky"
	}
	hasSpecial, hasDV := false, false
	for _, q := range qs {
		if special(q.Name) {
			hasSpecial = true
		}
		if q.Name == "DVstep" {
			hasDV = true
		}
	}
	if (hasHeavy || hasSpecial) && !heavyTerm(goal) {
		lh, lq := lightHyps(hs, qs)
		out = append(out, [2]interface{}{lh, lq})
	}
	if hasDV {
		var q2 []*QFact
		for _, q := range qs {
			if q.Name != "DVstep" {
				q2 = append(q2, q)
			}
		}
		out = append(out, [2]interface{}{hs, q2})
	}
	out = append(out, [2]interface{}{hs, qs})
	return out
}
