package main

// Concrete replay of failed obligations against the real package.
//
// A failed VC gives a model of one path between cut points, which need not be a reachable
// state. The replay step therefore searches, on the REAL code, for an input that shows the
// violation: an in-package Go test (injected with `go test -overlay`, nothing is written into
// /repo) enumerates small inputs over an alphabet taken from the failed VC (the byte constants
// the path compares against, the handler offsets of the model) and checks each against the
// specification. The first failing input is written into a stand-alone replay test.

import (
	_ "embed"
	"encoding/json"
	"fmt"
	"os"
	"os/exec"
	"path/filepath"
	"sort"
	"strconv"
	"strings"
	"sync"
	"time"
)

//go:embed replaytmpl/harness.go.txt
var harnessSrc string

//go:embed jsonspec.go
var jsonspecSrc string

var (
	replayMu    sync.Mutex
	replayCache = map[string]*replayTest{}
)

func familyFor(p *Property, e *LedgerEntry) string {
	switch p.ID {
	case "C01":
		return "valid"
	case "C08":
		// the composite check: the oracle of the function whose obligation failed
		fn := e.Fn
		switch {
		case strings.Contains(fn, "alueFast"):
			return "skipfast"
		case strings.Contains(fn, "andleArray") || strings.Contains(fn, "andleObject"):
			return "trav"
		case strings.Contains(fn, "Float") || strings.HasPrefix(fn, "fp."):
			return "float"
		case strings.Contains(fn, "ReadInt") || strings.Contains(fn, "ReadUint"):
			return "readint"
		case strings.Contains(fn, "String") || fn == "getu4" || fn == "unescapeUnicodeChar":
			return "strtok"
		case strings.Contains(fn, "Null") || strings.Contains(fn, "Bool"):
			return "token"
		}
		return "skip"
	case "C02":
		return "skip"
	case "C11":
		return "skipfast"
	case "C16":
		if e.Kind == "ensures" || strings.HasPrefix(e.Kind, "inv") {
			return "appenddst"
		}
		return "safety"
	case "C10":
		return "safety"
	case "C09":
		if e.Kind == "err-identity" || strings.Contains(e.Name, "C09") {
			return "errid"
		}
		return "safety"
	case "C07":
		return "trav"
	case "C12":
		return "decode"
	case "C05":
		return "readint"
	case "C13":
		return "token"
	case "C06":
		return "strtok"
	case "C19":
		return "alloc"
	case "C04":
		return "float"
	}
	return ""
}

func replayFnFor(family string, e *LedgerEntry) string {
	fn := e.Fn
	switch family {
	case "valid":
		return "Valid"
	case "skip":
		return "SkipValue"
	case "skipfast":
		return "SkipValueFast"
	case "strtok":
		return "ReadStringBytes"
	case "alloc":
		return "readers"
	case "float":
		return "ReadFloat64"
	case "readint":
		if strings.HasPrefix(fn, "Read") {
			return fn
		}
		return "ReadInt64"
	}
	return fn
}

func byteConstants(q *Query) []byte {
	seen := map[byte]bool{}
	var walk func(t *Term, vis map[int]bool)
	walk = func(t *Term, vis map[int]bool) {
		if vis[t.id] {
			return
		}
		vis[t.id] = true
		if t.IsConst() && t.Sort.Kind == KBV && t.Sort.W == 8 {
			seen[byte(t.Val.Int64())] = true
		}
		for _, a := range t.Args {
			walk(a, vis)
		}
	}
	if q != nil {
		vis := map[int]bool{}
		for _, h := range q.Hyps {
			if !heavyTerm(h) || true {
				walk(h, vis)
			}
		}
		for _, g := range q.Goals {
			walk(g, vis)
		}
	}
	var out []byte
	for b := range seen {
		out = append(out, b)
	}
	sort.Slice(out, func(i, j int) bool { return out[i] < out[j] })
	return out
}

func goBytes(b []byte) string {
	var ps []string
	for _, x := range b {
		ps = append(ps, strconv.Itoa(int(x)))
	}
	return "[]byte{" + strings.Join(ps, ", ") + "}"
}

func goInts(v []int64) string {
	var ps []string
	for _, x := range v {
		ps = append(ps, strconv.FormatInt(x, 10))
	}
	return "[]int{" + strings.Join(ps, ", ") + "}"
}

func specBody() string {
	s := jsonspecSrc
	if i := strings.Index(s, "package main"); i >= 0 {
		s = s[i+len("package main"):]
	}
	return s
}

const replayHeader = `package rjson

import (
	"fmt"
	"io"
	"math"
	"math/big"
	"strconv"
	"strings"
	"testing"
	"time"
)

var _ = math.MaxInt64
var _ = io.EOF
var _ = big.NewInt
var _ = strings.Contains
var _ = strconv.Itoa
var _ = time.Now
`

func runOverlayTest(repo, testFile, run string, timeout time.Duration) (string, error) {
	dir, err := os.MkdirTemp("", "rjv-replay-")
	if err != nil {
		return "", err
	}
	defer os.RemoveAll(dir)
	ov := map[string]map[string]string{"Replace": {filepath.Join(repo, "zz_rjv_replay_test.go"): testFile}}
	b, _ := json.Marshal(ov)
	ovf := filepath.Join(dir, "ov.json")
	os.WriteFile(ovf, b, 0o644)
	cmd := exec.Command("go", "test", "-overlay", ovf, "-vet=off", "-count=1", "-timeout", fmt.Sprint(timeout), "-run", run, "-v", ".")
	cmd.Dir = repo
	cmd.Env = append(os.Environ(), "GOFLAGS=-mod=mod", "GOPROXY=off", "GOSUMDB=off", "GOTOOLCHAIN=local")
	out, err := cmd.CombinedOutput()
	return string(out), err
}

func concreteReplay(eng *Engine, p *Property, e *LedgerEntry, fp *FuncProof, base string) (replayTest, bool) {
	family := familyFor(p, e)
	if family == "" {
		return replayTest{}, false
	}
	fn := replayFnFor(family, e)
	key := family + "/" + fn
	replayMu.Lock()
	if rt, ok := replayCache[key]; ok {
		replayMu.Unlock()
		if rt == nil {
			return replayTest{}, false
		}
		return *rt, true
	}
	replayMu.Unlock()

	// alphabet: byte constants of the failed VC, then family defaults
	var alpha []byte
	alphaMax := 13
	if family == "strtok" {
		alphaMax = 40
	}
	add := func(bs ...byte) {
		for _, b := range bs {
			dup := false
			for _, x := range alpha {
				if x == b {
					dup = true
				}
			}
			if !dup && len(alpha) < alphaMax {
				alpha = append(alpha, b)
			}
		}
	}
	if family == "strtok" {
		// string grammar: the bytes the failed VC compares against and their neighbours
		add('"', '\\')
		for _, b := range byteConstants(e.failQ) {
			add(b)
		}
		for _, b := range byteConstants(e.failQ) {
			add(b+1, b-1)
		}
		add([]byte("u0aD8 ")...)
	}
	if e.alphaOverride != nil {
		alpha = nil
		alphaMax = len(e.alphaOverride)
		add(e.alphaOverride...)
	}
	structural := []byte(`[]{}",:`)
	for _, b := range byteConstants(e.failQ) {
		// prefer printable JSON-relevant bytes seen on the path
		if strings.IndexByte(`[]{}",:0123456789-+.eEtrufalsn\ `+"\t\n\r", b) >= 0 || b < 0x20 || b >= 0x7f {
			add(b)
		}
	}
	switch family {
	case "decode", "alloc":
		add([]byte(`nul-019 "t`)...)
	case "appenddst":
		add([]byte("\"\\nu0a D8")...)
	case "readint":
		add([]byte(`-0189 .e`)...)
	case "token":
		add([]byte(" \t\n\x0c\x0bnulltruefas\"-1[{:,")...)
	case "trav", "errid":
		add([]byte(`[]{}",:1 `)...)
	default:
		add(structural...)
		add('1', ' ')
	}
	maxLen := 4
	for l := 4; l <= 10; l++ {
		tot := 1.0
		for i := 0; i < l; i++ {
			tot *= float64(len(alpha))
		}
		if tot <= 4e6 {
			maxLen = l
		}
	}
	// handler scripts
	var scripts [][]int64
	switch family {
	case "safety":
		vals := []int64{0, 1, -1, 2, 3, 5, 1 << 62, 9223372036854775807, 9223372036854775806, -9223372036854775808}
		for _, m := range e.Model {
			if strings.HasPrefix(m, "h.p") {
				if i := strings.Index(m, "= #x"); i >= 0 {
					if v, err := strconv.ParseUint(m[i+4:], 16, 64); err == nil {
						vals = append([]int64{int64(v)}, vals...)
					}
				}
			}
		}
		for _, v := range vals {
			scripts = append(scripts, []int64{v})
		}
	case "errid":
		for at := int64(0); at < 3; at++ {
			for _, off := range []int64{0, 1, 2, -1, 9223372036854775807} {
				scripts = append(scripts, []int64{at, off})
			}
		}
	case "trav":
		for m := 0; m < 8; m++ {
			scripts = append(scripts, []int64{int64(m & 1), int64(m >> 1 & 1), int64(m >> 2 & 1)})
		}
	}
	var scs []string
	for _, s := range scripts {
		scs = append(scs, goInts(s))
	}
	search := replayHeader + specBody() + harnessSrc + fmt.Sprintf(`
func TestRjvReplaySearch(t *testing.T) {
	c, detail, n, found := rjvReplaySearch(%q, %q, nil, %s, %d, [][]int{%s}, %d*time.Second)
	if found {
		fmt.Printf("RJV-REPLAY-FAIL data=%%q handler=%%v tried=%%d detail=%%s\n", c.Data, c.Handler, n, detail)
		t.Fatalf("violation reproduced")
	}
	fmt.Printf("RJV-REPLAY-NONE tried=%%d\n", n)
}
`, family, fn, goBytes(alpha), maxLen, strings.Join(scs, ", "), 25)
	dir, err := os.MkdirTemp("", "rjv-search-")
	if err != nil {
		return replayTest{}, false
	}
	defer os.RemoveAll(dir)
	sf := filepath.Join(dir, "search_test.go")
	os.WriteFile(sf, []byte(search), 0o644)
	out, _ := runOverlayTest(eng.repo, sf, "TestRjvReplaySearch", 120*time.Second)
	rt := &replayTest{Cmd: "cd /repo && go test -overlay <ov.json> -vet=off -count=1 -run TestRjvReplay ."}
	var failLine string
	for _, l := range strings.Split(out, "\n") {
		if strings.HasPrefix(l, "RJV-REPLAY-FAIL ") {
			failLine = l
		}
	}
	if failLine == "" {
		rt.Output = tail(out, 600)
		rt.Input = fmt.Sprintf("bounded search over alphabet %q, length <= %d: no failing input", alpha, maxLen)
		replayMu.Lock()
		replayCache[key] = rt
		replayMu.Unlock()
		return *rt, true
	}
	// parse data=%q handler=[..]
	var data string
	var handler []int64
	{
		rest := strings.TrimPrefix(failLine, "RJV-REPLAY-FAIL data=")
		q, err := strconv.QuotedPrefix(rest)
		if err == nil {
			data, _ = strconv.Unquote(q)
			rest = rest[len(q):]
		}
		if i := strings.Index(rest, "handler=["); i >= 0 {
			j := strings.Index(rest[i:], "]")
			for _, f := range strings.Fields(rest[i+len("handler=[") : i+j]) {
				v, _ := strconv.ParseInt(f, 10, 64)
				handler = append(handler, v)
			}
		}
	}
	final := replayHeader + specBody() + harnessSrc + fmt.Sprintf(`
// Replay of obligation %s (property %s).
// %s
func TestRjvReplay(t *testing.T) {
	c := rjvReplayCase{Data: %s, Handler: %s}
	if d := rjvReplayCheck(%q, %q, c); d != "" {
		t.Fatalf("property %s violated on input %%q (handler script %%v): %%s", c.Data, c.Handler, d)
	}
}
`, e.Name, p.ID, strings.TrimSpace(failLine), goBytes([]byte(data)), goInts(handler), family, fn, p.ID)
	file := filepath.Join(filepath.Dir(base), sanitizeFile(p.ID+"_"+family+"_"+fn)+"_replay_test.go")
	os.WriteFile(file, []byte(final), 0o644)
	out2, err2 := runOverlayTest(eng.repo, file, "TestRjvReplay$", 60*time.Second)
	rt.File = file
	rt.Input = fmt.Sprintf("data=%q handler=%v", data, handler)
	rt.Output = tail(out2, 800)
	rt.Reproduced = err2 != nil && strings.Contains(out2, "--- FAIL: TestRjvReplay")
	replayMu.Lock()
	replayCache[key] = rt
	replayMu.Unlock()
	return *rt, true
}

func tail(s string, n int) string {
	if len(s) <= n {
		return s
	}
	return s[len(s)-n:]
}

// cmdReplay re-runs a stored replay test against /repo.
func cmdReplay(path string) int {
	if a, err := filepath.Abs(path); err == nil {
		path = a
	}
	if strings.HasSuffix(path, ".json") {
		b, err := os.ReadFile(path)
		if err != nil {
			fmt.Println(err)
			return 2
		}
		var info map[string]interface{}
		json.Unmarshal(b, &info)
		if f, ok := info["replay_test"].(string); ok && f != "" {
			path = f
		} else {
			fmt.Printf("obligation %v: no concrete input was found; solver output is in %s\n", info["obligation"], path)
			return 1
		}
	}
	out, err := runOverlayTest(repoDir(), path, "TestRjvReplay$", 60*time.Second)
	fmt.Print(out)
	if err != nil {
		return 1
	}
	return 0
}
