package main

// Assumed contracts of standard-library functions called from code under contract.
// Each one is listed in the evidence as an assumption (exact definitions taken from the Go
// standard library documentation/source; they are small pure functions).

import (
	"go/ast"
	"go/types"
	"strings"

	"golang.org/x/tools/go/ssa"
)

func i32(v int64) *Term { return BVI(32, v) }

func runeLenTerm(r *Term) *Term {
	// utf8.RuneLen
	neg := Slt(r, i32(0))
	sur := And(Sle(i32(0xD800), r), Sle(r, i32(0xDFFF)))
	return Ite(neg, I64(-1),
		Ite(Slt(r, i32(0x80)), I64(1),
			Ite(Slt(r, i32(0x800)), I64(2),
				Ite(sur, I64(-1),
					Ite(Slt(r, i32(0x10000)), I64(3),
						Ite(Sle(r, i32(0x10FFFF)), I64(4), I64(-1)))))))
}

// utf8Bytes returns the encoded length and the four candidate bytes of utf8.EncodeRune(r)
// (invalid runes encode U+FFFD).
func utf8Bytes(r *Term) (n *Term, b [4]*Term) {
	invalid := Or(Slt(r, i32(0)), Slt(i32(0x10FFFF), r), And(Sle(i32(0xD800), r), Sle(r, i32(0xDFFF))))
	rr := Ite(invalid, i32(0xFFFD), r)
	lo := func(x *Term) *Term { return Extract(7, 0, x) }
	shr := func(x *Term, k int64) *Term { return BVOp("bvlshr", x, i32(k)) }
	and := func(x *Term, m int64) *Term { return BVOp("bvand", x, i32(m)) }
	or := func(x *Term, m int64) *Term { return BVOp("bvor", x, i32(m)) }
	c1 := Slt(rr, i32(0x80))
	c2 := Slt(rr, i32(0x800))
	c3 := Slt(rr, i32(0x10000))
	n = Ite(c1, I64(1), Ite(c2, I64(2), Ite(c3, I64(3), I64(4))))
	b[0] = Ite(c1, lo(rr), Ite(c2, lo(or(shr(rr, 6), 0xC0)), Ite(c3, lo(or(shr(rr, 12), 0xE0)), lo(or(shr(rr, 18), 0xF0)))))
	b[1] = Ite(c2, lo(or(and(rr, 0x3F), 0x80)), Ite(c3, lo(or(and(shr(rr, 6), 0x3F), 0x80)), lo(or(and(shr(rr, 12), 0x3F), 0x80))))
	b[2] = Ite(c3, lo(or(and(rr, 0x3F), 0x80)), lo(or(and(shr(rr, 6), 0x3F), 0x80)))
	b[3] = lo(or(and(rr, 0x3F), 0x80))
	return
}

func init() {
	// strconv.lower (reference copy, zz_stubs.go): c | ('x' - 'X')
	externs["strconv.lower"] = func(ex *Exec, st *State, i *ssa.Call, args []Value) Value {
		return BVOp("bvor", args[0].(*Term), BVI(8, 0x20))
	}
	externs["utf16.IsSurrogate"] = func(ex *Exec, st *State, i *ssa.Call, args []Value) Value {
		r := args[0].(*Term)
		return And(Sle(i32(0xD800), r), Slt(r, i32(0xE000)))
	}
	externs["utf16.DecodeRune"] = func(ex *Exec, st *State, i *ssa.Call, args []Value) Value {
		r1, r2 := args[0].(*Term), args[1].(*Term)
		ok := And(Sle(i32(0xD800), r1), Slt(r1, i32(0xDC00)), Sle(i32(0xDC00), r2), Slt(r2, i32(0xE000)))
		v := Add(BVOp("bvor", BVOp("bvshl", Sub(r1, i32(0xD800)), i32(10)), Sub(r2, i32(0xDC00))), i32(0x10000))
		return Ite(ok, v, i32(0xFFFD))
	}
	externs["utf8.RuneLen"] = func(ex *Exec, st *State, i *ssa.Call, args []Value) Value {
		return runeLenTerm(args[0].(*Term))
	}
	externs["utf8.EncodeRune"] = func(ex *Exec, st *State, i *ssa.Call, args []Value) Value {
		sv, ok := args[0].(*SliceV)
		if !ok {
			ex.unsupported(st, "EncodeRune on non-slice", i.Pos())
			return ex.fresh("encrune", BV(64))
		}
		r := args[1].(*Term)
		n, b := utf8Bytes(r)
		// EncodeRune panics (index out of range) when the buffer is too short
		ex.oblige(st, "bounds", ex.siteName(i.Pos(), "EncodeRune"), Sle(n, sv.Len), i.Pos())
		ex.frameCheckRegion(st, sv.Reg, i.Pos())
		arr := st.loadArr(ex, sv.Reg)
		for k := int64(0); k < 4; k++ {
			idx := Add(sv.Off, I64(k))
			arr = Store(arr, idx, Ite(Slt(I64(k), n), b[k], Select(arr, idx)))
		}
		st.store[sv.Reg] = &ArrayV{Arr: arr}
		return n
	}
	externs["utf8.DecodeRune"] = func(ex *Exec, st *State, i *ssa.Call, args []Value) Value {
		sv, _ := args[0].(*SliceV)
		r := ex.fresh("decrune.r", BV(32))
		w := ex.fresh("decrune.w", BV(64))
		if sv != nil {
			st.assume(Ite(Eq(sv.Len, I64(0)), Eq(w, I64(0)), And(Sle(I64(1), w), Sle(w, I64(4)), Sle(w, sv.Len))))
		}
		return TupleV{r, w}
	}
	externs["utf8.DecodeRuneInString"] = func(ex *Exec, st *State, i *ssa.Call, args []Value) Value {
		sv, _ := args[0].(*StringV)
		r := ex.fresh("decrune.r", BV(32))
		w := ex.fresh("decrune.w", BV(64))
		if sv != nil {
			st.assume(Ite(Eq(sv.Len, I64(0)), Eq(w, I64(0)), And(Sle(I64(1), w), Sle(w, I64(4)), Sle(w, sv.Len))))
		}
		return TupleV{r, w}
	}
	externs["math.Float64frombits"] = func(ex *Exec, st *State, i *ssa.Call, args []Value) Value {
		return args[0]
	}
	externs["math.Float64bits"] = func(ex *Exec, st *State, i *ssa.Call, args []Value) Value {
		return args[0]
	}
	externs["bits.LeadingZeros64"] = func(ex *Exec, st *State, i *ssa.Call, args []Value) Value {
		x := args[0].(*Term)
		res := I64(64)
		for k := 0; k < 64; k++ {
			// highest set bit k => 63-k leading zeros
			bit := Eq(Extract(k, k, x), BVI(1, 1))
			res = Ite(bit, I64(int64(63-k)), res)
		}
		return res
	}
	externs["bits.Mul64"] = func(ex *Exec, st *State, i *ssa.Call, args []Value) Value {
		x, y := args[0].(*Term), args[1].(*Term)
		p := Mul(ZeroExt(64, x), ZeroExt(64, y))
		return TupleV{Extract(127, 64, p), Extract(63, 0, p)}
	}
	_ = types.Typ
}

// ---- specification side of \u escapes (used by contracts; same exact definitions as above) ----

func hexvTerm(b *Term) *Term {
	z := func(x *Term) *Term { return ZeroExt(24, x) }
	return Ite(byteRange(b, '0', '9'), z(Sub(b, BVI(8, '0'))),
		Ite(byteRange(b, 'a', 'f'), z(Add(Sub(b, BVI(8, 'a')), BVI(8, 10))),
			Ite(byteRange(b, 'A', 'F'), z(Add(Sub(b, BVI(8, 'A')), BVI(8, 10))), i32(0))))
}

// hex4Term: value of the four bytes at arr[i..i+4) read as hexadecimal digits.
func hex4Term(arr, i *Term) *Term {
	v := i32(0)
	for k := int64(0); k < 4; k++ {
		v = Add(BVOp("bvshl", v, i32(4)), hexvTerm(Select(arr, Add(i, I64(k)))))
	}
	return v
}

// uescAt: a complete \uXXXX escape starts at absolute index i and fits below end.
func uescAt(arr, i, end *Term) *Term {
	hexd := func(b *Term) *Term { return Or(byteRange(b, '0', '9'), byteRange(b, 'a', 'f'), byteRange(b, 'A', 'F')) }
	cs := []*Term{Sle(Add(i, I64(6)), end), Eq(Select(arr, i), BVI(8, '\\')), Eq(Select(arr, Add(i, I64(1))), BVI(8, 'u'))}
	for k := int64(2); k < 6; k++ {
		cs = append(cs, hexd(Select(arr, Add(i, I64(k)))))
	}
	return And(cs...)
}

// escPair: the escape at i is a high surrogate directly followed by a low-surrogate escape.
func escPair(arr, i, end *Term) *Term {
	r0 := hex4Term(arr, Add(i, I64(2)))
	r1 := hex4Term(arr, Add(i, I64(8)))
	return And(Sle(i32(0xD800), r0), Slt(r0, i32(0xDC00)), uescAt(arr, Add(i, I64(6)), end), Sle(i32(0xDC00), r1), Slt(r1, i32(0xE000)))
}

// escRune: the rune denoted by the escape at i (RFC 8259 section 7 + U+FFFD for unpaired surrogates).
func escRune(arr, i, end *Term) *Term {
	r0 := hex4Term(arr, Add(i, I64(2)))
	r1 := hex4Term(arr, Add(i, I64(8)))
	sur := And(Sle(i32(0xD800), r0), Slt(r0, i32(0xE000)))
	comb := Add(BVOp("bvor", BVOp("bvshl", Sub(r0, i32(0xD800)), i32(10)), Sub(r1, i32(0xDC00))), i32(0x10000))
	return Ite(escPair(arr, i, end), comb, Ite(sur, i32(0xFFFD), r0))
}

func init() {
	sl := func(e *Env, a TV, n *ast.CallExpr) (*Term, *Term, *Term) {
		sv, ok := a.V.(*SliceV)
		if !ok {
			e.fail("slice argument expected in %s", exprString(n))
		}
		arr := e.ex.load(e.st, Place{Root: sv.Reg}).(*ArrayV).Arr
		return arr, sv.Off, Add(sv.Off, sv.Len)
	}
	// hex4(s, i): the four bytes s[i..i+4) read as hexadecimal digits (32-bit)
	specFns["hex4"] = func(e *Env, a []TV, n *ast.CallExpr) TV {
		arr, off, _ := sl(e, a[0], n)
		return TV{V: hex4Term(arr, Add(off, Resize(argTerm(e, a[1], n), 64, true))), Signed: true}
	}
	// escpair(s, i), escrune(s, i): pairing and rune of the \u escape at i. They are uninterpreted
	// symbols (so that the spec run's output axiom stays small); the defining equation is added
	// wherever a contract clause mentions them.
	specFns["escpair"] = func(e *Env, a []TV, n *ast.CallExpr) TV {
		arr, off, end := sl(e, a[0], n)
		i := Add(off, Resize(argTerm(e, a[1], n), 64, true))
		t := escPairSym(arr, i, end)
		e.addHyp(Eq(t, escPair(arr, i, end)))
		return TV{V: t}
	}
	specFns["escrune"] = func(e *Env, a []TV, n *ast.CallExpr) TV {
		arr, off, end := sl(e, a[0], n)
		i := Add(off, Resize(argTerm(e, a[1], n), 64, true))
		t := escRuneSym(arr, i, end)
		e.addHyp(Eq(t, escRune(arr, i, end)))
		return TV{V: t, Signed: true}
	}
	// utf8len(r), utf8b(r, j): length and j-th byte of the UTF-8 encoding of rune r
	specFns["utf8len"] = func(e *Env, a []TV, n *ast.CallExpr) TV {
		r := Resize(argTerm(e, a[0], n), 32, true)
		utf8Defs(e, r)
		return TV{V: u8len(r), Signed: true}
	}
	specFns["utf8b"] = func(e *Env, a []TV, n *ast.CallExpr) TV {
		r := Resize(argTerm(e, a[0], n), 32, true)
		utf8Defs(e, r)
		return TV{V: u8b(r, Resize(argTerm(e, a[1], n), 64, true))}
	}
}

func escPairSym(arr, i, end *Term) *Term { return App("esc.pair$"+arr.Name, BoolSort, i, end) }
func escRuneSym(arr, i, end *Term) *Term { return App("esc.rune$"+arr.Name, BV(32), i, end) }
func u8len(r *Term) *Term                { return App("u8.len", BV(64), r) }
func u8b(r, j *Term) *Term               { return App("u8.b", BV(8), r, j) }

// utf8Defs: the defining equations of u8.len / u8.b for the (ground) rune r.
func utf8Defs(e *Env, r *Term) {
	for _, v := range FreeVars(r) {
		if strings.HasPrefix(v.Name, "q.") || strings.HasPrefix(v.Name, "sk.") {
			return // under a quantifier: definitions are supplied by the enclosing ground occurrence
		}
	}
	n, b := utf8Bytes(r)
	e.addHyp(Eq(u8len(r), n))
	for j := int64(0); j < 4; j++ {
		e.addHyp(Eq(u8b(r, I64(j)), b[j]))
	}
}
