package main

// Property registry: which functions (and in which handler mode) make up the proof of each
// property, which obligations count for it, and what is assumed.

import "strings"

type Job struct {
	Key    string // pkg.Func
	Mode   string // hostile | wellbehaved
	Driver string // "" (contracts) | sim | rel | frames | tables | alloc
	Sim    bool   // prove against the master JSON transducer (@sim clauses active)
	Alloc  bool   // ghost allocation counter clauses (@alloc) active
	Rel    bool   // relational driver: independence from the scratch parameters
	Only   string // restrict to one obligation kind without invariant inference (e.g. "frame")
	SimAs  string // prove a relative (init=none) spec-run contract under another run: "travarr" | "travobj" (no nesting limit)
}

func relJobs(keys ...string) []Job {
	out := hostile(keys...)
	for i := range out {
		out[i].Rel = true
		out[i].Driver = "rel"
	}
	return out
}

func allocJobs(keys ...string) []Job {
	out := hostile(keys...)
	for i := range out {
		out[i].Alloc = true
		out[i].Driver = "alloc"
	}
	return out
}

func framesOnly(keys ...string) []Job {
	out := hostile(keys...)
	for i := range out {
		out[i].Only = "frame"
		out[i].Driver = "frames"
	}
	return out
}

// simAs: the relative contracts of helper functions called from the traversal machines are proved
// under the traversal runs (same transducer, other entry point, no nesting limit).
func simAs(variant string, keys ...string) []Job {
	out := simJobs(keys...)
	for i := range out {
		out[i].SimAs = variant
		out[i].Driver = "sim:" + variant
	}
	return out
}

func simJobs(keys ...string) []Job {
	out := hostile(keys...)
	for i := range out {
		out[i].Sim = true
		out[i].Driver = "sim"
	}
	return out
}

type Property struct {
	ID      string
	Level   string // proof | other
	Jobs    []Job
	Kinds   map[string]bool // nil: all kinds
	Labels  []string        // ensures labels that belong to this property (besides unlabelled)
	Extra   []string        // extra global drivers: "global-store-scan", "tables:C13"
	Assume  []string
	Explain string
	Trusted []string
	Subset  string
}

var commonTrusted = []string{
	"go/packages + go/types + go/ssa (x/tools v0.29.0, NaiveForm) translate /repo's Go source faithfully",
	"rjv's SMT semantics of the SSA instruction subset (64-bit two's-complement bit-vectors, arrays for slices)",
	"z3-new 5.1.0 / z3 4.8.12 / cvc5 1.0.3: an `unsat` answer is correct",
	"M-floyd: inductive cut-point invariants + exit conditions + decreasing measure imply total correctness",
	"M-inst: instantiating bounded quantified hypotheses only at index terms of the VC weakens hypotheses (sound)",
}

var commonAssume = []string{
	"A-maxalloc: every existing slice has 0 <= len <= cap <= 2^48; an allocation that returns fits in that bound",
	"distinct slice parameters do not overlap in memory (data vs. destination / stack), and slice-typed local variables do not alias each other at cut points",
	"result slices of callees are modelled as fresh regions constrained by the callee's contract",
	"handlers do not write to the input bytes; they may overwrite the contents of the scratch stack (re-entrant use of the same Buffer)",
	"error sentinels declared with fmt.Errorf at package level are distinct non-nil values that are never reassigned (checked: no store to package-level variables)",
}

func hostile(keys ...string) []Job {
	var out []Job
	for _, k := range keys {
		if !strings.Contains(k, ".") {
			k = "rjson." + k
		}
		out = append(out, Job{Key: k, Mode: "hostile"})
	}
	return out
}

var machineFns = []string{"skipValue", "skipValueFast", "handleArrayValues", "handleObjectValues", "readNull", "readBool", "unescapeStringContent", "appendRemainderOfString"}
var helperFns = []string{"errUnexpectedByteInString", "countWhitespace", "skipFloatExp", "skipFloatDec", "growBytesSliceCapacity", "getu4", "unescapeUnicodeChar"}
var wrapperFns = []string{"SkipValue", "SkipValueFast", "HandleArrayValues", "HandleObjectValues", "Valid", "UnescapeStringContent"}
var tokenFns = []string{"NextToken", "NextTokenType"}
var readerFns = []string{"ReadUint64", "ReadUint32", "ReadInt64", "ReadInt32", "ReadInt", "ReadUint", "ReadFloat64", "ReadBool", "ReadNull", "ReadStringBytes", "ReadString"}
var decodeFns = []string{"nullOrBust", "DecodeBool", "DecodeFloat64", "DecodeInt64", "DecodeInt32", "DecodeInt", "DecodeUint64", "DecodeUint32", "DecodeUint", "DecodeString"}

func concat(ls ...[]string) []string {
	var out []string
	for _, l := range ls {
		out = append(out, l...)
	}
	return out
}

var fpFns = []string{"fp.ParseJSONFloatPrefix", "fp.readFloat", "fp.(*decimal).set", "fp.atof64exact", "fp.eiselLemire64"}

func allContractFns() []string {
	return concat(machineFns, helperFns, wrapperFns, tokenFns, readerFns, decodeFns, fpFns)
}

var safetyKinds = map[string]bool{"bounds": true, "slice": true, "nil-deref": true, "nil-map": true, "div0": true, "shift-neg": true,
	"makeslice": true, "type-assert": true, "panic": true, "abort": true, "decreases": true, "inv-init": true, "inv-preserved": true,
	"requires@call": true, "ensures": true, "offset-in-range": true}

func properties() map[string]*Property {
	ps := map[string]*Property{}
	ps["C10"] = &Property{ID: "C10", Level: "proof",
		Jobs:   hostile(allContractFns()...),
		Kinds:  safetyKinds,
		Labels: []string{"C10"},
		Extra:  []string{"bounded-safety-uncovered"},
		Assume: []string{
			"handlers return arbitrary (p, err): p is an unconstrained 64-bit integer at every call",
			"pointer targets of Decode functions are non-nil (a nil target is a caller error, like json.Unmarshal(nil))",
			"termination of called functions outside the module (fmt, unicode/utf8, unicode/utf16) and the Go runtime's own stack growth are not analysed",
			"internal/fp: ParseJSONFloatPrefix, readFloat, (*decimal).set, atof64exact and eiselLemire64 are proved here; (*decimal).floatBits and the decimal shifting code below it (Shift, leftShift, rightShift, trim, RoundedInteger) enter with an assumed safety contract, justified by C04's lock-step equivalence with Go 1.23.5 strconv (whose safety is assumed)",
		},
		Subset: "memory safety (index, slice, nil, division), termination (measure per cut point) and `err == nil ==> 0 <= p <= len(data)` for every function under contract; handler offsets that would move the position outside the input are an error",
	}
	ps["C09"] = &Property{ID: "C09", Level: "proof",
		Jobs:   hostile("handleArrayValues", "handleObjectValues", "HandleArrayValues", "HandleObjectValues"),
		Kinds:  map[string]bool{"err-identity": true, "inv-init": true, "inv-preserved": true, "ensures": true, "requires@call": true},
		Labels: []string{"C09"},
		Assume: []string{"handlers return arbitrary (p, err)"},
	}
	ps["C12"] = &Property{ID: "C12", Level: "proof",
		Jobs:   hostile(concat(decodeFns, []string{"ReadNull"})...),
		Labels: []string{"C12"},
		Assume: []string{
			"each Read function is a deterministic function of the bytes of data (its result functions rok/rval/rp are well defined); what those results are is the subject of C04/C05/C06/C13",
			"DecodeString: equality of the stored string with the reader's result is not expressible (strings are not scalars in the VC language); offset, error and target-unchanged parts are proved",
		},
	}
	specAssume := []string{
		"the master JSON transducer (cmd/rjv/jsonspec.go, written from RFC 8259 + nesting limit 10000) is the specification; its agreement with encoding/json (Valid and streaming-decoder offsets) was checked on 11.3M enumerated strings and at the depth limit (go test ./cmd/rjv), which is a bounded validation of the spec, not a proof about encoding/json",
		"M-run: the absorption lemma (Dead/Done are absorbing) is used through its instances; its base and step cases are discharged as obligations spec/absorb/*",
	}
	ps["C05"] = &Property{ID: "C05", Level: "proof",
		Jobs:   hostile("ReadUint64", "ReadUint32", "ReadInt64", "ReadInt32", "ReadInt", "ReadUint", "countWhitespace"),
		Labels: []string{"C05"},
		Extra:  []string{"dv-lemmas"},
		Assume: []string{
			"the integer literal specification (global lets uintok/uintval/intval in the contract file) is RFC 8259 `int` with the value as a 128-bit decimal fold DV saturating at 2^64; DV is characterised by base/step axioms instantiated at the indices a path reads, plus the stickiness lemma (saturation persists), whose step case is discharged as spec/DVsticky/step",
			"ReadInt / ReadUint: strconv.IntSize folds to 64 on this platform; the 32-bit arm is not analysed",
			"the Decode forms are covered by C12 (they behave as the reader)",
		},
	}
	ps["C13"] = &Property{ID: "C13", Level: "proof",
		Jobs: hostile("NextToken", "NextTokenType", "countWhitespace", "readNull", "readBool", "ReadNull", "ReadBool",
			"ReadUint64", "ReadUint32", "ReadInt64", "ReadInt32", "ReadInt", "ReadUint", "ReadStringBytes", "ReadString",
			"ReadFloat64", "fp.ParseJSONFloatPrefix", "fp.readFloat"),
		Labels: []string{"C13"},
		Assume: []string{
			"token classes: tokclass(b) in rjv is the RFC 8259 token table numbered like the TokenType constants; the package tables tokenTypes and whitespace are read from their composite literals on every run and compared with it inside the proofs of NextToken/NextTokenType/countWhitespace (every one of the 256 entries matters to some obligation)",
			"exclusivity: every reader's contract carries err == nil ==> tokclass(first non-whitespace byte) == its class; the classes are pairwise different constants (ReadFloat64 included: readFloat / ParseJSONFloatPrefix succeed only on input starting with '-' or a digit)",
		},
	}
	ps["C16"] = &Property{ID: "C16", Level: "proof",
		Jobs: append(append(framesOnly(allContractFns()...), hostile("ReadStringBytes", "ReadString", "UnescapeStringContent", "unescapeStringContent", "appendRemainderOfString",
			"unescapeUnicodeChar", "growBytesSliceCapacity", "errUnexpectedByteInString", "getu4", "countWhitespace")...),
			// scratch independence of the Buffer-taking functions: the relational proofs of C14
			relJobs("skipValue", "skipValueFast", "handleArrayValues", "handleObjectValues", "SkipValue", "SkipValueFast", "Valid", "HandleArrayValues", "HandleObjectValues")...),
		Kinds:  map[string]bool{"frame": true, "ensures": true, "inv-init": true, "inv-preserved": true, "requires@call": true, "rel": true},
		Labels: []string{"C16"},
		Extra:  []string{"global-store-scan", "bounded-append-semantics"},
		Assume: []string{
			"destination and input slices do not overlap (a destination overlapping the input would itself be a write to the input)",
			"handlers do not write the input (user code)",
		},
		Subset: "(a) no function under contract stores into an input region (every store and in-place append has a frame obligation), and no function of the module stores into package-level memory; (b) destination-taking functions return, on success, a slice whose prefix is the destination's prior contents (ReadStringBytes, UnescapeStringContent, unescapeStringContent, appendRemainderOfString, unescapeUnicodeChar, growBytesSliceCapacity); (c) every returned string is the result of a []byte->string conversion. (d) results of the Buffer-taking functions do not depend on the Buffer's stack slice (the relational proofs of C14, repeated here). NOT proved: equality of the appended suffix with the empty-destination output (bounded stand-in only), independence of ReadString from the prior contents of *buf, and value trees (reason as for C15)",
	}
	ps["C18"] = &Property{ID: "C18", Level: "proof",
		Jobs:  framesOnly(allContractFns()...),
		Kinds: map[string]bool{"frame": true},
		Extra: []string{"global-store-scan"},
		Assume: []string{
			"M-frame (not machine-checked): calls whose write footprints are disjoint and that read only immutable shared memory are race-free and sequentially equivalent (frame rule); interleavings are not explored and nothing is run under the race detector",
			"package-level tables and error sentinels are written only by package initialisation, which happens before main",
			"sync.Pool (a field of the caller-owned ValueReader) is safe for concurrent use",
		},
		Subset: "the classical sufficient condition for race freedom of independent calls: every function of rjson and internal/fp (all of them, found by an SSA scan, not only those under contract) never stores into package-level memory, and every store of the functions under contract goes to a local, to freshly allocated memory, or to memory reachable from its own non-input parameters",
	}
	wb := func(keys ...string) []Job {
		out := simJobs(keys...)
		for i := range out {
			out[i].Mode = "wellbehaved"
		}
		return out
	}
	ps["C07"] = &Property{ID: "C07", Level: "proof",
		Jobs: append(append(wb("handleArrayValues", "handleObjectValues", "HandleArrayValues", "HandleObjectValues"),
			simAs("travarr", "skipFloatDec", "skipFloatExp")...), simAs("travobj", "skipFloatDec", "skipFloatExp")...),
		Labels: []string{"C07"},
		Extra:  []string{"spec-lemmas"},
		Assume: append([]string{
			"well-behaved handler contract (the property's own hypothesis): a handler that returns a nil error returns 0 or the exact end offset VE of the value it was given; 'exact end' is stated on the specification run: at VE the run is in the after-value state of the same context, with the same depth and the same enclosing frames, VE lies inside the input and the byte before VE closes the value (L-closer: a string ends with a quote, an array with ], an object with } - argued on the spec table, not machine-checked). For numbers and literals the machines ignore the offset and nothing is assumed",
			"nesting: the traversal machines have no depth limit; the property's bound of 10,000 is not needed by the proof (it holds for every depth)",
		}, specAssume...),
	}
	ps["C06"] = &Property{ID: "C06", Level: "proof",
		Jobs: append(simJobs("ReadStringBytes", "ReadString", "appendRemainderOfString", "unescapeStringContent", "UnescapeStringContent"),
			hostile("unescapeUnicodeChar", "getu4", "growBytesSliceCapacity", "countWhitespace", "errUnexpectedByteInString")...),
		Labels: []string{"C06"},
		Extra:  []string{"spec-lemmas", "bounded-string-content"},
		Assume: append([]string{
			"utf8.EncodeRune / utf8.RuneLen / utf16.IsSurrogate / utf16.DecodeRune enter with their exact definitions as assumed contracts (standard library, four small pure functions)",
			"the string machines are proved in the top-level context (spec state InValue.Str@top, depth 0), which is how ReadString/ReadStringBytes and UnescapeStringContent 'on its own' use them; other contexts are the same sub-automaton and are not re-proved",
		}, specAssume...),
		Subset: "grammar and offsets: ReadStringBytes / ReadString succeed exactly when the first token is a well-formed RFC 8259 string (closing quote present, no raw byte below 0x20, only the RFC escapes incl. \\uXXXX with four hex digits; surrogate pairs consumed as 12 bytes) and return the offset just after the closing quote; unescapeStringContent/UnescapeStringContent succeed on the bytes between the quotes of such a token and consume all of them; destination prefix preserved (C16). unescapeUnicodeChar appends exactly the UTF-8 encoding of the escape's rune (surrogate pair combined and 12 bytes consumed exactly when a high-surrogate escape is followed by a low-surrogate escape, U+FFFD for an unpaired surrogate) and getu4 returns the value of the four hex digits. NOT covered: that the machines put the right byte for each two-character escape and copy the unescaped segments to the right place (the content fold over the whole token: output registers of the spec run exist in rjv, but the quantified machine invariants were not discharged within the solver budget - see DESIGN.md)",
	}
	pureFns := []string{"countWhitespace", "skipFloatExp", "skipFloatDec", "getu4", "NextTokenType", "NextToken", "readNull", "readBool", "ReadNull", "ReadBool", "nullOrBust"}
	numFns := []string{"ReadUint64", "ReadUint32", "ReadInt64", "ReadInt32", "ReadInt", "ReadUint", "ReadFloat64",
		"DecodeBool", "DecodeFloat64", "DecodeInt64", "DecodeInt32", "DecodeInt", "DecodeUint64", "DecodeUint32", "DecodeUint"}
	ps["C19"] = &Property{ID: "C19", Level: "proof",
		Jobs: append(append(hostile(concat(pureFns, numFns, fpFns)...), hostile("growBytesSliceCapacity", "unescapeUnicodeChar")...),
			// a warmed Buffer stays warmed: the stack slice a machine returns is never shorter than the one it got
			hostile("skipValue", "skipValueFast", "handleArrayValues", "handleObjectValues", "SkipValue", "SkipValueFast", "HandleArrayValues", "HandleObjectValues")...),
		Kinds:  map[string]bool{"ensures": true, "inv-init": true, "inv-preserved": true, "requires@call": true},
		Labels: []string{"C19"},
		Extra:  []string{"fp-noalloc-scan", "bounded-zero-alloc"},
		Assume: []string{
			"ghost allocation counter: incremented at every make / append growth / []byte<->string conversion / interface boxing / fmt.Errorf / escaping new in the functions under contract. A local whose address is taken counts as heap-allocated unless a conservative escape analysis (cmd/rjv/escape.go, mirroring gc's rule) shows that neither it nor a pointer derived from it is stored, returned, boxed, captured or passed to a callee that does so; gc's actual decision and the allocator itself are not modelled (the replay measures testing.AllocsPerRun on the real code)",
			"internal/fp: ParseJSONFloatPrefix, readFloat, (*decimal).set, atof64exact, eiselLemire64 are proved not to allocate; (*decimal).floatBits and the shifting code below it contain no allocating instruction (SSA scan of the function and its callees: no make / append / conversion / boxing / closure / escaping local; one obligation per function)",
			"NOT covered: SkipValue, SkipValueFast, Valid, HandleArrayValues, HandleObjectValues with a warmed Buffer (their only allocation sites are the stack-growth sites guarded by `top+1 >= len(stack)`, see C20; that a buffer warmed on a document at least as deep makes the guard false needs a depth bound that is not built), and ReadStringBytes / UnescapeStringContent with spare capacity (their contracts state it for growBytesSliceCapacity and unescapeUnicodeChar only)",
		},
		Subset: "successful calls of the token, null, bool, integer and float readers and of the numeric/boolean Decode functions (including Decode on a null input) request zero heap bytes: ensures `err == nil ==> ghost_alloc == old(ghost_alloc)` for each, modularly through their callees; growBytesSliceCapacity and unescapeUnicodeChar request nothing when capacity suffices; the four stack machines and their wrappers never return / store back a stack slice shorter than the one they were given, on any exit (so a Buffer that was used on a deep document stays warmed - the hypothesis of the property is preserved by every call, failing ones included)",
	}
	c20fns := concat(pureFns, numFns, fpFns, []string{"growBytesSliceCapacity", "unescapeUnicodeChar", "errUnexpectedByteInString",
		"skipValue", "skipValueFast", "handleArrayValues", "handleObjectValues", "SkipValue", "SkipValueFast", "HandleArrayValues", "HandleObjectValues",
		"appendRemainderOfString", "ReadStringBytes", "rjson.(*ValueReader).ReadObject", "rjson.(*ValueReader).ReadArray"})
	ps["C20"] = &Property{ID: "C20", Level: "proof",
		Jobs:   allocJobs(c20fns...),
		Kinds:  map[string]bool{"ensures": true, "inv-init": true, "inv-preserved": true, "requires@call": true, "alloc-bound": true},
		Labels: []string{"C20"},
		Assume: []string{
			"A-growth (Go runtime growslice, assumed): on reallocation the new capacity is at most 2*needed+32 elements, at least 1.25x the old capacity, and at least 2x while the old capacity is below 256 elements",
			"M-sum (not machine-checked): per-call bounds of the form `bytes requested <= K*consumed + K0` add up to a bound linear in the total input because the calls of a traversal consume disjoint byte ranges; allocations made by handlers (user code, or the nested ValueReader calls, each of which has its own per-call obligation) are not counted in the caller",
			"maps: make(map, hint) is charged 48*hint bytes; the []interface{} appends of the ValueReader are not modelled",
		},
		Subset: "per-call resource contracts on the ghost allocation counter: in the four stack machines every allocation event (the temporary make and the append growth of the stack) requests at most 16*p+1024 bytes where p is the position reached (per event; that the events of one call add up to a linear total is the geometric-growth argument M-amort, not machine-checked), scalar readers and Decode functions a constant, string functions a bound in the destination size and the bytes consumed. Three sites violate their bound on the pinned tree and are recorded as known findings F2, F3, F4 (replayed on the real code: /verif/findings/c20_findings_test.go)",
	}
	ps["C04"] = &Property{ID: "C04", Level: "proof",
		Jobs:   simJobs("ReadFloat64", "fp.ParseJSONFloatPrefix", "fp.readFloat", "fp.(*decimal).set", "countWhitespace"),
		Labels: []string{"C04"},
		Extra:  []string{"fp-tables", "fp-equiv", "fp-equiv-loops", "spec-lemmas", "bounded-float-differential"},
		Subset: "(a) tables: every row equals its mathematical definition and the pinned reference; (b) kernels: eiselLemire64 and atof64exact equal strconv's for all arguments; (c) decimal slow path: floatBits, Shift, leftShift, rightShift, prefixIsLessThan, trim, shouldRoundUp, RoundedInteger are lock-step equivalent to strconv's (same results and same memory for equal arguments, loop by loop), and (*decimal).set is lock-step equivalent to strconv's on inputs without '_' and leading '+' (a precondition every call site proves); (d) grammar and offset: ReadFloat64 / ParseJSONFloatPrefix / readFloat succeed (or report only a range error) exactly when the first token is an RFC 8259 number and return the offset just after the literal (simulation against the master transducer), and set accepts every literal readFloat accepted; (e) value: readFloat's (mantissa, exp, neg, trunc) equal the number registers of the specification run (value of the first 19 mantissa digits, digit count, decimal point position, exponent fold); (f) glue: ParseJSONFloatPrefix returns atof64exact's result when the mantissa is exact and that succeeds, else eiselLemire64's when it succeeds and (if truncated) agrees with the result for mantissa+1, else the slow path's (set on the literal's bytes, floatBits), with an error exactly when the slow path reports overflow. NOT covered: that the number registers denote the literal's decimal value (positional notation, by definition) and that this decision procedure rounds correctly given correct kernels (the argument of the Eisel-Lemire paper / strconv.atof64, whose structure (f) mirrors)",
		Assume: []string{
			"purity: readFloat, atof64exact, eiselLemire64, (*decimal).set and (*decimal).floatBits are functions of their arguments and the memory reachable from them (they read only constant tables; no store to package-level memory: global store scan), so their results can be named by uninterpreted functions in the glue contract",
			"A-strconv: Go 1.23.5 strconv.ParseFloat is correctly rounded (the property names it as the oracle); the reference is the verbatim copy of eisel_lemire.go / decimal.go / atof.go under /verif/ref/strconv (SHA256SUMS checked against GOROOT when present)",
		},
	}
	ps["C14"] = &Property{ID: "C14", Level: "proof",
		Jobs:  relJobs("skipValue", "skipValueFast", "handleArrayValues", "handleObjectValues", "SkipValue", "SkipValueFast", "Valid", "HandleArrayValues", "HandleObjectValues"),
		Kinds: map[string]bool{"rel": true, "inv-init": true, "inv-preserved": true, "bounds": true, "slice": true, "requires@call": true},
		Assume: []string{
			"the handler is a deterministic function of (call index, arguments): both runs of the relational proof see the same handler results; it may overwrite the contents of the stack slice (re-entrant use of the same Buffer) - the stack contents are havocked independently in both runs at every handler call, where top == 0 is an invariant",
			"callees under contract are deterministic functions of their non-scratch arguments (skipFloatDec/skipFloatExp return sentinel errors only)",
			"M-history (not machine-checked, immediate): a Buffer carries no state but its stack slice, every call's outcome is proved independent of that slice's length, capacity and contents, hence of any history of earlier calls (including failed ones) on the same Buffer",
		},
		Subset: "2-safety: for each of the four stack machines, two runs on the same data and handler but arbitrary, different stack slices take the same control flow (up to stack growth), make the same handler calls with the same arguments and return the same (p, err); the five public wrappers return the same outcome for a nil and a non-nil Buffer",
	}
	ps["C01"] = &Property{ID: "C01", Level: "proof",
		Jobs:   append(simJobs("skipValue", "skipFloatDec", "skipFloatExp", "Valid"), hostile("countWhitespace")...),
		Labels: []string{"C01"},
		Extra:  []string{"spec-lemmas"},
		Assume: append([]string{"independence from the buffer: the postcondition of Valid mentions data only; every stack content is admitted at entry (the stack parameter is unconstrained), see also C14"}, specAssume...),
	}
	ps["C02"] = &Property{ID: "C02", Level: "proof",
		Jobs:   simJobs("skipValue", "skipFloatDec", "skipFloatExp", "SkipValue"),
		Labels: []string{"C02"},
		Extra:  []string{"spec-lemmas"},
		Assume: specAssume,
	}
	c08 := simJobs("ReadUint64", "ReadInt64", "ReadUint32", "ReadInt32", "ReadInt", "ReadUint", "ReadFloat64", "fp.ParseJSONFloatPrefix", "fp.readFloat",
		"ReadBool", "ReadNull", "ReadStringBytes", "ReadString", "appendRemainderOfString", "countWhitespace",
		"skipValue", "skipFloatDec", "skipFloatExp", "SkipValue", "skipValueFast", "SkipValueFast")
	c08 = append(c08, hostile("readNull", "readBool", "unescapeUnicodeChar", "getu4", "growBytesSliceCapacity", "errUnexpectedByteInString")...)
	c08 = append(c08, wb("handleArrayValues", "handleObjectValues", "HandleArrayValues", "HandleObjectValues")...)
	c08 = append(c08, simAs("travarr", "skipFloatDec", "skipFloatExp")...)
	c08 = append(c08, simAs("travobj", "skipFloatDec", "skipFloatExp")...)
	ps["C08"] = &Property{ID: "C08", Level: "proof",
		Jobs:   c08,
		Labels: []string{"C08"},
		Extra:  []string{"spec-lemmas"},
		Subset: "every offset a reader reports on success is the end offset of ONE specification run: for the integer, float, boolean, null and string readers, SkipValue and (on accepted input) SkipValueFast the contract is `err == nil ==> accepts(data) && p == endof(data)` over the same master transducer run (value, nesting limit 10000); HandleArrayValues / HandleObjectValues call the handler exactly at member starts with data[p:] starting at the member, resume at the exact end the handler reports (or validate the member themselves after 0), and return the container's end offset; the Decode functions behave as their readers (C12). NOT machine-checked: the induction M-compose over decoders written against the API (a quantification over programs, not over inputs), and the tree-equality half of the statement (no tree-valued contracts, see C03)",
		Assume: append([]string{
			"M-compose (not machine-checked): if every reader called at a value start returns that value's end in the enclosing run (the per-call contracts above; a value's own run and the enclosing run agree on its extent because the transducer's behaviour inside a value does not depend on the enclosing frames), and the traversals call handlers exactly at member starts and resume at the reported end, then by induction on the nesting of calls a decoder that passes offsets through unchanged ends where direct decoding ends, and a decoder that reads every member with validating readers fails whenever the document is malformed",
			"well-behaved handler contract as in C07",
		}, specAssume...),
	}
	ps["C11"] = &Property{ID: "C11", Level: "proof",
		Jobs:   simJobs("skipValueFast", "SkipValueFast", "skipValue", "skipFloatDec", "skipFloatExp", "SkipValue"),
		Labels: []string{"C11", "C02"},
		Extra:  []string{"spec-lemmas"},
		Assume: append([]string{
			"C11 is decided as the conjunction of two contracts over the same specification run: SkipValue succeeds <==> accepts(data), then p == endof(data) (the C02 contract, re-proved here), and accepts(data) ==> SkipValueFast succeeds with p == endof(data)",
			"skipValueFast is proved under the entry hypothesis accepts(data) (every clause proved in that mode is an implication from it); its memory safety on arbitrary input is C10's business",
			"the spec transducer is extended with two counters (open array frames, open object frames); that they equal the number of such frames on the spec stack is lemma count-*, discharged by induction (base / step obligations) with explicit instances of the recursive definition",
		}, specAssume...),
	}
	return ps
}
