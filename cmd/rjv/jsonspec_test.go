package main

import (
	"bytes"
	"encoding/json"
	"io"
	"testing"
)

// streamEnd: (ok, end) of the first value per encoding/json's streaming decoder.
func streamEnd(data []byte) (bool, int) {
	dec := json.NewDecoder(bytes.NewReader(data))
	var raw json.RawMessage
	if err := dec.Decode(&raw); err != nil {
		return false, 0
	}
	return true, int(dec.InputOffset())
}

func TestSpecAgainstEncodingJSON(t *testing.T) {
	alphabets := []string{
		"[]{},:\" 0-1.e\\unltrfas",
		"[]{},:\"\\u0aF\t9",
		"-0123.eE+ \n,]",
		"truefalsn ,[]",
	}
	maxLen := []int{4, 5, 6, 6}
	n := 0
	for ai, alpha := range alphabets {
		buf := make([]byte, 0, 8)
		var rec func(d int)
		rec = func(d int) {
			n++
			want := json.Valid(buf)
			if got := rjvSpecValid(buf); got != want {
				t.Fatalf("Valid(%q): spec %v json %v", buf, got, want)
			}
			wok, wend := streamEnd(buf)
			gok, gend := rjvSpecRun(buf, rjvSpecBefore, 10000)
			// the streaming decoder needs to see a delimiter after numbers/literals at EOF only for
			// numbers it still accepts; compare on agreement of acceptance and offset when both accept
			if wok != gok || (wok && wend != gend) {
				t.Fatalf("stream(%q): spec (%v,%d) json (%v,%d)", buf, gok, gend, wok, wend)
			}
			if d == maxLen[ai] {
				return
			}
			for i := 0; i < len(alpha); i++ {
				buf = append(buf, alpha[i])
				rec(d + 1)
				buf = buf[:len(buf)-1]
			}
		}
		rec(0)
	}
	// depth limit
	for _, depth := range []int{9999, 10000, 10001} {
		for _, open := range []string{"[", "{\"a\":"} {
			cl := "]"
			if open != "[" {
				cl = "}"
			}
			doc := bytes.Repeat([]byte(open), depth)
			doc = append(doc, '1')
			doc = append(doc, bytes.Repeat([]byte(cl), depth)...)
			if open == "[" {
				doc = append(bytes.Repeat([]byte("["), depth), bytes.Repeat([]byte("]"), depth)...)
			}
			if got, want := rjvSpecValid(doc), json.Valid(doc); got != want {
				t.Fatalf("depth %d %q: spec %v json %v", depth, open, got, want)
			}
		}
	}
	t.Logf("%d strings compared", n)
	_ = io.EOF
}
