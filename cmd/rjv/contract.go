package main

// Contract file parser. Contracts live in /repo/verif_contracts.go (and internal/fp/verif_contracts.go)
// as `//@` comment lines, keyed by function name, loop ordinal and label pattern.

import (
	"bufio"
	"fmt"
	"go/ast"
	"go/parser"
	"os"
	"regexp"
	"strconv"
	"strings"
)

type Clause struct {
	Text  string
	Expr  ast.Expr
	Label string
	Line  int
	Mode  string // "" = all modes
}

type LoopContract struct {
	Invariants []*Clause
	Decreases  *Clause
	Unroll     bool
}

type FuncContract struct {
	Pkg        string
	Name       string
	Params     []string
	Results    []string
	Input      map[string]bool
	Scratch    map[string]bool
	Requires   []*Clause
	Ensures    []*Clause
	Defines    []*Clause // definitional: assumed at call sites, not checked in the body
	Loops      map[int]*LoopContract
	Cuts       []string
	Candidates []*Clause
	PerConst   []string
	Measure    *Clause
	AllocSite  *Clause // per-event bound on the bytes requested at any allocation site (in the end-of-path state)
	Assigns    []string
	Lets       []*LetDef
	Ghost      bool // the function updates the ghost handler-error state
	NoAlloc    bool // proved (or assumed, if trusted) to perform no heap allocation
	Trusted    bool // contract assumed, body not verified here
	Pure       bool // results (and the memory written through pointer arguments) are functions of the arguments and the memory reachable from them
	Sim        string
	SimOpts    map[string]string
	Notes      []string
	Line       int
	Props      []string
}

type LetDef struct {
	Name   string
	Params []string
	Expr   ast.Expr
	Text   string
}

type ContractFile struct {
	Globals map[string]*LetDef
	Funcs   map[string]*FuncContract
	Order   []string
	Files   []string
	Lines   int
}

var funcHdr = regexp.MustCompile(`^func\s+((?:\(\*?[A-Za-z0-9_]+\)\.)?[A-Za-z0-9_]+)\s*\(([^)]*)\)\s*(?:\(([^)]*)\))?\s*$`)

func splitNames(s string) []string {
	var out []string
	for _, f := range strings.Split(s, ",") {
		f = strings.TrimSpace(f)
		if f != "" {
			out = append(out, f)
		}
	}
	return out
}

func parseContracts(paths ...string) (*ContractFile, error) {
	cf := &ContractFile{Funcs: map[string]*FuncContract{}, Globals: map[string]*LetDef{}}
	theContracts = cf
	for _, path := range paths {
		f, err := os.Open(path)
		if err != nil {
			continue
		}
		cf.Files = append(cf.Files, path)
		pkg := ""
		var cur *FuncContract
		sc := bufio.NewScanner(f)
		sc.Buffer(make([]byte, 1<<20), 1<<20)
		ln := 0
		var pending string
		pendingLine := 0
		flush := func() error {
			if pending == "" {
				return nil
			}
			body := pending
			pending = ""
			return cf.directive(&cur, pkg, body, path, pendingLine)
		}
		for sc.Scan() {
			ln++
			line := sc.Text()
			tl := strings.TrimSpace(line)
			if strings.HasPrefix(tl, "package ") {
				pkg = strings.TrimSpace(strings.TrimPrefix(tl, "package "))
			}
			if !strings.HasPrefix(tl, "//@") {
				continue
			}
			body := strings.TrimPrefix(tl, "//@")
			tb := strings.TrimSpace(body)
			if strings.HasPrefix(tb, "&&") || strings.HasPrefix(tb, "||") {
				pending += " " + tb
				continue
			}
			if strings.HasPrefix(tb, "...") {
				pending += " " + strings.TrimSpace(tb[3:])
				continue
			}
			if err := flush(); err != nil {
				f.Close()
				return nil, err
			}
			body = strings.TrimSpace(body)
			if body == "" {
				continue
			}
			if i := strings.Index(body, " // "); i >= 0 {
				body = strings.TrimSpace(body[:i])
			}
			pending = body
			pendingLine = ln
			cf.Lines++
		}
		if err := flush(); err != nil {
			f.Close()
			return nil, err
		}
		f.Close()
	}
	return cf, nil
}

func (cf *ContractFile) directive(cur **FuncContract, pkg, body, path string, ln int) error {
	errf := func(format string, a ...interface{}) error {
		return fmt.Errorf("%s:%d: %s", path, ln, fmt.Sprintf(format, a...))
	}
	if m := funcHdr.FindStringSubmatch(body); m != nil {
		fc := &FuncContract{Pkg: pkg, Name: m[1], Params: splitNames(m[2]), Results: splitNames(m[3]),
			Input: map[string]bool{}, Scratch: map[string]bool{}, Loops: map[int]*LoopContract{}, SimOpts: map[string]string{}, Line: ln}
		key := pkg + "." + fc.Name
		if _, dup := cf.Funcs[key]; dup {
			return errf("duplicate contract for %s", key)
		}
		cf.Funcs[key] = fc
		cf.Order = append(cf.Order, key)
		*cur = fc
		return nil
	}
	if strings.HasPrefix(body, "global let ") {
		ld, err := parseLet(strings.TrimPrefix(body, "global let "))
		if err != nil {
			return errf("%v", err)
		}
		cf.Globals[ld.Name] = ld
		return nil
	}
	fc := *cur
	if fc == nil {
		return errf("directive outside func: %s", body)
	}
	word, rest := body, ""
	if i := strings.IndexAny(body, " \t"); i >= 0 {
		word, rest = body[:i], strings.TrimSpace(body[i+1:])
	}
	mkClause := func(text string) (*Clause, error) {
		c := &Clause{Text: text, Line: ln}
		if strings.HasPrefix(text, "@") {
			if j := strings.IndexAny(text, " \t"); j > 0 {
				c.Mode = text[1:j]
				text = strings.TrimSpace(text[j+1:])
			}
		}
		if strings.HasPrefix(text, "[") {
			if j := strings.Index(text, "]"); j > 0 {
				c.Label = text[1:j]
				text = strings.TrimSpace(text[j+1:])
			}
		}
		e, err := parseSpecExpr(text)
		if err != nil {
			return nil, errf("cannot parse %q: %v", text, err)
		}
		c.Expr = e
		return c, nil
	}
	switch word {
	case "input":
		for _, n := range splitNames(rest) {
			fc.Input[n] = true
		}
	case "scratch":
		for _, n := range splitNames(rest) {
			fc.Scratch[n] = true
		}
	case "ghost":
		fc.Ghost = true
	case "noalloc":
		fc.NoAlloc = true
	case "requires":
		c, err := mkClause(rest)
		if err != nil {
			return err
		}
		fc.Requires = append(fc.Requires, c)
	case "ensures":
		c, err := mkClause(rest)
		if err != nil {
			return err
		}
		fc.Ensures = append(fc.Ensures, c)
	case "defines":
		c, err := mkClause(rest)
		if err != nil {
			return err
		}
		fc.Defines = append(fc.Defines, c)
	case "loop":
		parts := strings.SplitN(rest, " ", 3)
		if len(parts) < 2 {
			return errf("bad loop directive")
		}
		n, err := strconv.Atoi(parts[0])
		if err != nil {
			return errf("bad loop ordinal")
		}
		lc := fc.Loops[n]
		if lc == nil {
			lc = &LoopContract{}
			fc.Loops[n] = lc
		}
		switch parts[1] {
		case "unroll":
			lc.Unroll = true
		case "invariant":
			c, err := mkClause(parts[2])
			if err != nil {
				return err
			}
			lc.Invariants = append(lc.Invariants, c)
		case "decreases":
			c, err := mkClause(parts[2])
			if err != nil {
				return err
			}
			lc.Decreases = c
		default:
			return errf("bad loop directive %q", parts[1])
		}
	case "cuts":
		fc.Cuts = append(fc.Cuts, splitNames(rest)...)
	case "candidates":
		cmode := ""
		if strings.HasPrefix(rest, "@") {
			if j := strings.IndexAny(rest, " \t"); j > 0 {
				cmode = rest[1:j]
				rest = strings.TrimSpace(rest[j+1:])
			}
		}
		for _, t := range strings.Split(rest, ";") {
			t = strings.TrimSpace(t)
			if t == "" {
				continue
			}
			c, err := mkClause(t)
			if err != nil {
				return err
			}
			if cmode != "" {
				c.Mode = cmode
			}
			fc.Candidates = append(fc.Candidates, c)
		}
	case "perconst":
		for _, t := range strings.Split(rest, ";") {
			t = strings.TrimSpace(t)
			if t != "" {
				fc.PerConst = append(fc.PerConst, t)
			}
		}
	case "allocsite":
		c, err := mkClause(rest)
		if err != nil {
			return err
		}
		fc.AllocSite = c
	case "measure":
		c, err := mkClause(rest)
		if err != nil {
			return err
		}
		fc.Measure = c
	case "assigns":
		fc.Assigns = append(fc.Assigns, splitNames(rest)...)
	case "pure":
		fc.Pure = true
	case "trusted":
		fc.Trusted = true
		fc.Notes = append(fc.Notes, rest)
	case "sim":
		parts := strings.Fields(rest)
		if len(parts) == 0 {
			return errf("bad sim directive")
		}
		fc.Sim = parts[0]
		for _, kv := range parts[1:] {
			if i := strings.Index(kv, "="); i > 0 {
				fc.SimOpts[kv[:i]] = kv[i+1:]
			}
		}
	case "props":
		fc.Props = append(fc.Props, splitNames(rest)...)
	case "let":
		ld, err := parseLet(rest)
		if err != nil {
			return errf("%v", err)
		}
		fc.Lets = append(fc.Lets, ld)
	case "note":
		fc.Notes = append(fc.Notes, rest)
	default:
		return errf("unknown directive %q", word)
	}
	return nil
}

// parseSpecExpr parses the assertion language: Go expression syntax plus `==>` and `<==>`.
func parseSpecExpr(s string) (ast.Expr, error) {
	t := rewriteImplications(s)
	return parser.ParseExpr(t)
}

// rewriteImplications turns A ==> B into imp((A),(B)) and A <==> B into iff((A),(B)), recursively.
func rewriteImplications(s string) string {
	s = strings.TrimSpace(s)
	// split at top level
	depth := 0
	inStr := byte(0)
	find := func(op string) int {
		depth = 0
		inStr = 0
		for i := 0; i < len(s); i++ {
			c := s[i]
			if inStr != 0 {
				if c == '\\' {
					i++
				} else if c == inStr {
					inStr = 0
				}
				continue
			}
			switch c {
			case '\'', '"':
				inStr = c
			case '(', '[', '{':
				depth++
			case ')', ']', '}':
				depth--
			default:
				if depth == 0 && strings.HasPrefix(s[i:], op) {
					if op == "==>" && i > 0 && s[i-1] == '<' {
						continue
					}
					return i
				}
			}
		}
		return -1
	}
	if i := find("<==>"); i >= 0 {
		return "iff((" + rewriteImplications(s[:i]) + "),(" + rewriteImplications(s[i+4:]) + "))"
	}
	if i := find("==>"); i >= 0 {
		return "imp((" + rewriteImplications(s[:i]) + "),(" + rewriteImplications(s[i+3:]) + "))"
	}
	// recurse into parenthesised groups
	var sb strings.Builder
	i := 0
	for i < len(s) {
		c := s[i]
		if c == '\'' || c == '"' {
			j := i + 1
			for j < len(s) && s[j] != c {
				if s[j] == '\\' {
					j++
				}
				j++
			}
			sb.WriteString(s[i:min(j+1, len(s))])
			i = j + 1
			continue
		}
		if c == '(' {
			// find matching
			d := 0
			j := i
			for ; j < len(s); j++ {
				if s[j] == '\'' || s[j] == '"' {
					q := s[j]
					j++
					for j < len(s) && s[j] != q {
						if s[j] == '\\' {
							j++
						}
						j++
					}
					continue
				}
				if s[j] == '(' {
					d++
				} else if s[j] == ')' {
					d--
					if d == 0 {
						break
					}
				}
			}
			inner := s[i+1 : j]
			// split on top-level commas
			parts := splitTopLevel(inner, ',')
			for k, p := range parts {
				parts[k] = rewriteImplications(p)
			}
			sb.WriteByte('(')
			sb.WriteString(strings.Join(parts, ", "))
			sb.WriteByte(')')
			i = j + 1
			continue
		}
		sb.WriteByte(c)
		i++
	}
	return sb.String()
}

func splitTopLevel(s string, sep byte) []string {
	var out []string
	depth := 0
	start := 0
	for i := 0; i < len(s); i++ {
		c := s[i]
		if c == '\'' || c == '"' {
			q := c
			i++
			for i < len(s) && s[i] != q {
				if s[i] == '\\' {
					i++
				}
				i++
			}
			continue
		}
		switch c {
		case '(', '[', '{':
			depth++
		case ')', ']', '}':
			depth--
		default:
			if c == sep && depth == 0 {
				out = append(out, s[start:i])
				start = i + 1
			}
		}
	}
	out = append(out, s[start:])
	return out
}

func matchLabel(pat, name string) bool {
	if strings.HasSuffix(pat, "*") {
		return strings.HasPrefix(name, strings.TrimSuffix(pat, "*"))
	}
	return pat == name
}

var theContracts *ContractFile

// parseLet: name(params) = expr   |   name = expr
func parseLet(rest string) (*LetDef, error) {
	lhs, rhs := "", ""
	for k := 0; k < len(rest); k++ {
		if rest[k] == '=' && (k+1 >= len(rest) || rest[k+1] != '=') && (k == 0 || !strings.ContainsRune("=<>!", rune(rest[k-1]))) {
			lhs, rhs = strings.TrimSpace(rest[:k]), strings.TrimSpace(rest[k+1:])
			break
		}
	}
	if lhs == "" {
		return nil, fmt.Errorf("bad let %q", rest)
	}
	ld := &LetDef{Text: rhs}
	if j := strings.Index(lhs, "("); j > 0 {
		ld.Name = strings.TrimSpace(lhs[:j])
		ld.Params = splitNames(strings.TrimSuffix(lhs[j+1:], ")"))
	} else {
		ld.Name = lhs
	}
	e, err := parseSpecExpr(rhs)
	if err != nil {
		return nil, fmt.Errorf("cannot parse let %q: %v", rhs, err)
	}
	ld.Expr = e
	return ld, nil
}
