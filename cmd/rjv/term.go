package main

// Hash-consed SMT term DAG with light simplification and SMT-LIB 2 printing.
// Go `int` and friends are fixed-width bit-vectors; nothing here is a mathematical integer.

import (
	"fmt"
	"math/big"
	"sort"
	"strconv"
	"strings"
	"sync"
	"sync/atomic"
)

type SortKind int

const (
	KBool SortKind = iota
	KBV
	KArray
	KUnint
)

type Sort struct {
	Kind      SortKind
	W         int
	Idx, Elem *Sort
	Name      string
	str       string
}

var (
	sortMu   sync.Mutex
	sortTab  = map[string]*Sort{}
	BoolSort = mkSort(&Sort{Kind: KBool})
)

func mkSort(s *Sort) *Sort {
	k := s.String()
	s.str = k
	sortMu.Lock()
	defer sortMu.Unlock()
	if x, ok := sortTab[k]; ok {
		return x
	}
	sortTab[k] = s
	return s
}

func BV(w int) *Sort                { return mkSort(&Sort{Kind: KBV, W: w}) }
func ArraySort(idx, el *Sort) *Sort { return mkSort(&Sort{Kind: KArray, Idx: idx, Elem: el}) }
func UnintSort(name string) *Sort   { return mkSort(&Sort{Kind: KUnint, Name: name}) }

func (s *Sort) String() string {
	if s.str != "" {
		return s.str
	}
	switch s.Kind {
	case KBool:
		return "Bool"
	case KBV:
		return fmt.Sprintf("(_ BitVec %d)", s.W)
	case KArray:
		return fmt.Sprintf("(Array %s %s)", s.Idx, s.Elem)
	default:
		return s.Name
	}
}

type Term struct {
	Op   string // "const","var","app", or an SMT operator
	Args []*Term
	Sort *Sort
	Val  *big.Int // const (BV) ; for Bool const Val is 0/1
	Name string   // var / uninterpreted function name / extract params etc.
	I1   int      // extract hi / extend amount
	I2   int      // extract lo
	id   int
}

const nShards = 256

type termShard struct {
	mu  sync.Mutex
	tab map[string]*Term
}

var (
	termMu     sync.Mutex // protects the table registry only
	termShards [nShards]termShard
	termSeq    int64
)

func intern(t *Term) *Term {
	var sb strings.Builder
	sb.WriteString(t.Op)
	sb.WriteByte('|')
	sb.WriteString(t.Sort.String())
	sb.WriteByte('|')
	sb.WriteString(t.Name)
	if t.Val != nil {
		sb.WriteByte('#')
		sb.WriteString(t.Val.Text(16))
	}
	if t.I1 != 0 || t.I2 != 0 {
		fmt.Fprintf(&sb, "<%d,%d>", t.I1, t.I2)
	}
	for _, a := range t.Args {
		sb.WriteByte(',')
		sb.WriteString(strconv.Itoa(a.id))
	}
	k := sb.String()
	h := uint32(2166136261)
	for i := 0; i < len(k); i++ {
		h = (h ^ uint32(k[i])) * 16777619
	}
	sh := &termShards[h%nShards]
	sh.mu.Lock()
	if sh.tab == nil {
		sh.tab = map[string]*Term{}
	}
	if x, ok := sh.tab[k]; ok {
		sh.mu.Unlock()
		return x
	}
	t.id = int(atomic.AddInt64(&termSeq, 1))
	sh.tab[k] = t
	sh.mu.Unlock()
	return t
}

var (
	True  = intern(&Term{Op: "const", Sort: BoolSort, Val: big.NewInt(1)})
	False = intern(&Term{Op: "const", Sort: BoolSort, Val: big.NewInt(0)})
)

func BoolC(b bool) *Term {
	if b {
		return True
	}
	return False
}

func mask(w int) *big.Int {
	m := new(big.Int).Lsh(big.NewInt(1), uint(w))
	return m.Sub(m, big.NewInt(1))
}

func BVC(w int, v *big.Int) *Term {
	x := new(big.Int).Mod(v, new(big.Int).Lsh(big.NewInt(1), uint(w)))
	return intern(&Term{Op: "const", Sort: BV(w), Val: x})
}

func BVI(w int, v int64) *Term { return BVC(w, big.NewInt(v)) }
func I64(v int64) *Term        { return BVI(64, v) }

func Var(name string, s *Sort) *Term { return intern(&Term{Op: "var", Sort: s, Name: name}) }

var freshMu sync.Mutex
var freshN = map[string]int{}

func Fresh(prefix string, s *Sort) *Term {
	freshMu.Lock()
	freshN[prefix]++
	n := freshN[prefix]
	freshMu.Unlock()
	return Var(fmt.Sprintf("%s!%d", prefix, n), s)
}

func (t *Term) IsConst() bool { return t.Op == "const" }
func (t *Term) IsTrue() bool  { return t == True }
func (t *Term) IsFalse() bool { return t == False }

// signed value of a BV constant
func (t *Term) SVal() *big.Int {
	v := new(big.Int).Set(t.Val)
	if t.Sort.Kind == KBV && v.Bit(t.Sort.W-1) == 1 {
		v.Sub(v, new(big.Int).Lsh(big.NewInt(1), uint(t.Sort.W)))
	}
	return v
}

func App(name string, ret *Sort, args ...*Term) *Term {
	return intern(&Term{Op: "app", Name: name, Sort: ret, Args: args})
}

func Not(a *Term) *Term {
	if a == True {
		return False
	}
	if a == False {
		return True
	}
	if a.Op == "not" {
		return a.Args[0]
	}
	return intern(&Term{Op: "not", Sort: BoolSort, Args: []*Term{a}})
}

func And(as ...*Term) *Term {
	var out []*Term
	seen := map[int]bool{}
	for _, a := range as {
		if a == nil {
			continue
		}
		if a == False {
			return False
		}
		if a == True {
			continue
		}
		if a.Op == "and" {
			for _, b := range a.Args {
				if !seen[b.id] {
					seen[b.id] = true
					out = append(out, b)
				}
			}
			continue
		}
		if !seen[a.id] {
			seen[a.id] = true
			out = append(out, a)
		}
	}
	for _, a := range out {
		if a.Op == "not" && seen[a.Args[0].id] {
			return False
		}
	}
	if len(out) == 0 {
		return True
	}
	if len(out) == 1 {
		return out[0]
	}
	return intern(&Term{Op: "and", Sort: BoolSort, Args: out})
}

func Or(as ...*Term) *Term {
	var out []*Term
	seen := map[int]bool{}
	for _, a := range as {
		if a == nil {
			continue
		}
		if a == True {
			return True
		}
		if a == False {
			continue
		}
		if a.Op == "or" {
			for _, b := range a.Args {
				if !seen[b.id] {
					seen[b.id] = true
					out = append(out, b)
				}
			}
			continue
		}
		if !seen[a.id] {
			seen[a.id] = true
			out = append(out, a)
		}
	}
	for _, a := range out {
		if a.Op == "not" && seen[a.Args[0].id] {
			return True
		}
	}
	if len(out) == 0 {
		return False
	}
	if len(out) == 1 {
		return out[0]
	}
	return intern(&Term{Op: "or", Sort: BoolSort, Args: out})
}

func Implies(a, b *Term) *Term { return Or(Not(a), b) }
func Iff(a, b *Term) *Term     { return Eq(a, b) }

func Ite(c, a, b *Term) *Term {
	if c == True {
		return a
	}
	if c == False {
		return b
	}
	if a == b {
		return a
	}
	if a.Sort.Kind == KBool {
		if a == True && b == False {
			return c
		}
		if a == False && b == True {
			return Not(c)
		}
		if a == True {
			return Or(c, b)
		}
		if b == False {
			return And(c, a)
		}
		if a == False {
			return And(Not(c), b)
		}
		if b == True {
			return Or(Not(c), a)
		}
	}
	if c.Op == "not" {
		return Ite(c.Args[0], b, a)
	}
	return intern(&Term{Op: "ite", Sort: a.Sort, Args: []*Term{c, a, b}})
}

func Eq(a, b *Term) *Term {
	if a == b {
		return True
	}
	if a.Sort != b.Sort {
		panic(fmt.Sprintf("Eq sort mismatch: %s:%s vs %s:%s", a, a.Sort, b, b.Sort))
	}
	if a.IsConst() && b.IsConst() {
		return BoolC(a.Val.Cmp(b.Val) == 0)
	}
	if a.Sort.Kind == KBool {
		if a == True {
			return b
		}
		if b == True {
			return a
		}
		if a == False {
			return Not(b)
		}
		if b == False {
			return Not(a)
		}
	}
	// (x + c1) == c2  ->  x == c2-c1 ; (x+c1) == (x+c2)
	if a.Sort.Kind == KBV {
		ab, ac := splitAddConst(a)
		bb, bc := splitAddConst(b)
		if ab != nil && bb != nil && ab == bb {
			return BoolC(ac.Cmp(bc) == 0)
		}
		if ab != nil && bb == nil && ac.Sign() != 0 {
			// b const
			return Eq(ab, BVC(a.Sort.W, new(big.Int).Sub(bc, ac)))
		}
		if bb != nil && ab == nil && bc.Sign() != 0 {
			return Eq(bb, BVC(a.Sort.W, new(big.Int).Sub(ac, bc)))
		}
		// ite with constant branches against a constant
		if b.IsConst() && a.Op == "ite" && a.Args[1].IsConst() && a.Args[2].IsConst() {
			return Ite(a.Args[0], Eq(a.Args[1], b), Eq(a.Args[2], b))
		}
		if a.IsConst() && b.Op == "ite" && b.Args[1].IsConst() && b.Args[2].IsConst() {
			return Ite(b.Args[0], Eq(b.Args[1], a), Eq(b.Args[2], a))
		}
		// zero_extend(x) == const
		if b.IsConst() && a.Op == "zero_extend" {
			iw := a.Args[0].Sort.W
			if b.Val.BitLen() > iw {
				return False
			}
			return Eq(a.Args[0], BVC(iw, b.Val))
		}
		if a.IsConst() && b.Op == "zero_extend" {
			return Eq(b, a)
		}
	}
	if a.id > b.id {
		a, b = b, a
	}
	return intern(&Term{Op: "=", Sort: BoolSort, Args: []*Term{a, b}})
}

// splitAddConst returns (base, const) with t == base + const; base nil if t is a pure constant.
func splitAddConst(t *Term) (*Term, *big.Int) {
	if t.IsConst() {
		return nil, t.Val
	}
	if t.Op == "bvadd" && len(t.Args) == 2 && t.Args[1].IsConst() {
		return t.Args[0], t.Args[1].Val
	}
	return t, big.NewInt(0)
}

func bvbin(op string, a, b *Term) *Term {
	if a.Sort != b.Sort {
		panic(fmt.Sprintf("%s sort mismatch: %s:%s vs %s:%s", op, a, a.Sort, b, b.Sort))
	}
	return intern(&Term{Op: op, Sort: a.Sort, Args: []*Term{a, b}})
}

func Add(a, b *Term) *Term {
	w := a.Sort.W
	if a.Sort != b.Sort {
		panic(fmt.Sprintf("bvadd sort mismatch: %s:%s vs %s:%s", a, a.Sort, b, b.Sort))
	}
	ab, ac := splitAddConst(a)
	bb, bc := splitAddConst(b)
	c := new(big.Int).Add(ac, bc)
	c.And(c, mask(w))
	var base *Term
	switch {
	case ab == nil && bb == nil:
		return BVC(w, c)
	case ab == nil:
		base = bb
	case bb == nil:
		base = ab
	default:
		// x + (-x) patterns
		if ab.Op == "bvneg" && ab.Args[0] == bb || bb.Op == "bvneg" && bb.Args[0] == ab {
			return BVC(w, c)
		}
		if ab.id > bb.id {
			ab, bb = bb, ab
		}
		base = intern(&Term{Op: "bvadd", Sort: a.Sort, Args: []*Term{ab, bb}})
	}
	if c.Sign() == 0 {
		return base
	}
	return intern(&Term{Op: "bvadd", Sort: a.Sort, Args: []*Term{base, BVC(w, c)}})
}

func Neg(a *Term) *Term {
	if a.IsConst() {
		return BVC(a.Sort.W, new(big.Int).Neg(a.Val))
	}
	if a.Op == "bvneg" {
		return a.Args[0]
	}
	if a.Op == "bvadd" && len(a.Args) == 2 {
		return Add(Neg(a.Args[0]), Neg(a.Args[1]))
	}
	return intern(&Term{Op: "bvneg", Sort: a.Sort, Args: []*Term{a}})
}

func Sub(a, b *Term) *Term {
	if a == b {
		return BVI(a.Sort.W, 0)
	}
	return Add(a, Neg(b))
}

func Mul(a, b *Term) *Term {
	w := a.Sort.W
	if a.IsConst() && b.IsConst() {
		return BVC(w, new(big.Int).Mul(a.Val, b.Val))
	}
	if a.IsConst() {
		a, b = b, a
	}
	if b.IsConst() {
		if b.Val.Sign() == 0 {
			return b
		}
		if b.Val.Cmp(big.NewInt(1)) == 0 {
			return a
		}
		// multiplication by a power of two is a shift (far cheaper for the bit-vector solvers)
		if b.Val.Sign() > 0 && new(big.Int).And(b.Val, new(big.Int).Sub(b.Val, big.NewInt(1))).Sign() == 0 {
			return BVOp("bvshl", a, BVI(w, int64(b.Val.BitLen()-1)))
		}
	}
	return bvbin("bvmul", a, b)
}

func bvconstop(op string, a, b *Term) *Term {
	w := a.Sort.W
	x, y := a.Val, b.Val
	switch op {
	case "bvand":
		return BVC(w, new(big.Int).And(x, y))
	case "bvor":
		return BVC(w, new(big.Int).Or(x, y))
	case "bvxor":
		return BVC(w, new(big.Int).Xor(x, y))
	case "bvudiv":
		if y.Sign() == 0 {
			return BVC(w, mask(w))
		}
		return BVC(w, new(big.Int).Quo(x, y))
	case "bvurem":
		if y.Sign() == 0 {
			return a
		}
		return BVC(w, new(big.Int).Rem(x, y))
	case "bvsdiv":
		if y.Sign() == 0 {
			return nil
		}
		return BVC(w, new(big.Int).Quo(a.SVal(), b.SVal()))
	case "bvsrem":
		if y.Sign() == 0 {
			return nil
		}
		return BVC(w, new(big.Int).Rem(a.SVal(), b.SVal()))
	case "bvshl":
		if y.Cmp(big.NewInt(int64(w))) >= 0 {
			return BVI(w, 0)
		}
		return BVC(w, new(big.Int).Lsh(x, uint(y.Int64())))
	case "bvlshr":
		if y.Cmp(big.NewInt(int64(w))) >= 0 {
			return BVI(w, 0)
		}
		return BVC(w, new(big.Int).Rsh(x, uint(y.Int64())))
	case "bvashr":
		s := a.SVal()
		if y.Cmp(big.NewInt(int64(w))) >= 0 {
			if s.Sign() < 0 {
				return BVC(w, mask(w))
			}
			return BVI(w, 0)
		}
		return BVC(w, new(big.Int).Rsh(s, uint(y.Int64())))
	}
	return nil
}

func BVOp(op string, a, b *Term) *Term {
	if a.IsConst() && b.IsConst() {
		if r := bvconstop(op, a, b); r != nil {
			return r
		}
	}
	switch op {
	case "bvand":
		if b.IsConst() && b.Val.Sign() == 0 {
			return b
		}
		if a.IsConst() && a.Val.Sign() == 0 {
			return a
		}
		if b.IsConst() && b.Val.Cmp(mask(b.Sort.W)) == 0 {
			return a
		}
	case "bvor", "bvxor":
		if b.IsConst() && b.Val.Sign() == 0 {
			return a
		}
		if a.IsConst() && a.Val.Sign() == 0 {
			return b
		}
	case "bvshl", "bvlshr", "bvashr":
		if b.IsConst() && b.Val.Sign() == 0 {
			return a
		}
	}
	return bvbin(op, a, b)
}

func BVNot(a *Term) *Term {
	if a.IsConst() {
		return BVC(a.Sort.W, new(big.Int).Xor(a.Val, mask(a.Sort.W)))
	}
	return intern(&Term{Op: "bvnot", Sort: a.Sort, Args: []*Term{a}})
}

func cmpop(op string, a, b *Term) *Term {
	if a.Sort != b.Sort {
		panic(fmt.Sprintf("%s sort mismatch: %s:%s vs %s:%s", op, a, a.Sort, b, b.Sort))
	}
	if a.IsConst() && b.IsConst() {
		switch op {
		case "bvult":
			return BoolC(a.Val.Cmp(b.Val) < 0)
		case "bvule":
			return BoolC(a.Val.Cmp(b.Val) <= 0)
		case "bvslt":
			return BoolC(a.SVal().Cmp(b.SVal()) < 0)
		case "bvsle":
			return BoolC(a.SVal().Cmp(b.SVal()) <= 0)
		}
	}
	if a == b {
		return BoolC(op == "bvule" || op == "bvsle")
	}
	// zero_extend(x) cmp const where the constant exceeds x's range
	if op == "bvult" || op == "bvule" || op == "bvslt" || op == "bvsle" {
		if a.Op == "zero_extend" && b.IsConst() && a.Args[0].Sort.W < a.Sort.W {
			iw := a.Args[0].Sort.W
			bv := b.Val
			if op == "bvslt" || op == "bvsle" {
				bv = b.SVal()
			}
			if bv.Sign() < 0 {
				return False
			}
			if bv.BitLen() > iw {
				return True
			}
			uop := "bvult"
			if op == "bvule" || op == "bvsle" {
				uop = "bvule"
			}
			return cmpop(uop, a.Args[0], BVC(iw, bv))
		}
		if b.Op == "zero_extend" && a.IsConst() && b.Args[0].Sort.W < b.Sort.W {
			iw := b.Args[0].Sort.W
			av := a.Val
			if op == "bvslt" || op == "bvsle" {
				av = a.SVal()
			}
			if av.Sign() < 0 {
				return True
			}
			if av.BitLen() > iw {
				return False
			}
			uop := "bvult"
			if op == "bvule" || op == "bvsle" {
				uop = "bvule"
			}
			return cmpop(uop, BVC(iw, av), b.Args[0])
		}
	}
	return intern(&Term{Op: op, Sort: BoolSort, Args: []*Term{a, b}})
}

func Ult(a, b *Term) *Term { return cmpop("bvult", a, b) }
func Ule(a, b *Term) *Term { return cmpop("bvule", a, b) }
func Slt(a, b *Term) *Term { return cmpop("bvslt", a, b) }
func Sle(a, b *Term) *Term { return cmpop("bvsle", a, b) }

func Extract(hi, lo int, a *Term) *Term {
	if lo == 0 && hi == a.Sort.W-1 {
		return a
	}
	w := hi - lo + 1
	if a.IsConst() {
		v := new(big.Int).Rsh(a.Val, uint(lo))
		return BVC(w, v)
	}
	if (a.Op == "zero_extend" || a.Op == "sign_extend") && lo == 0 {
		iw := a.Args[0].Sort.W
		if w == iw {
			return a.Args[0]
		}
		if w < iw {
			return Extract(hi, 0, a.Args[0])
		}
		if a.Op == "zero_extend" {
			return ZeroExt(w-iw, a.Args[0])
		}
		return SignExt(w-iw, a.Args[0])
	}
	return intern(&Term{Op: "extract", Sort: BV(w), Args: []*Term{a}, I1: hi, I2: lo})
}

func ZeroExt(n int, a *Term) *Term {
	if n == 0 {
		return a
	}
	if a.IsConst() {
		return BVC(a.Sort.W+n, a.Val)
	}
	if a.Op == "zero_extend" {
		return ZeroExt(n+a.I1, a.Args[0])
	}
	return intern(&Term{Op: "zero_extend", Sort: BV(a.Sort.W + n), Args: []*Term{a}, I1: n})
}

func SignExt(n int, a *Term) *Term {
	if n == 0 {
		return a
	}
	if a.IsConst() {
		return BVC(a.Sort.W+n, a.SVal())
	}
	if a.Op == "zero_extend" {
		return ZeroExt(n+a.I1, a.Args[0])
	}
	return intern(&Term{Op: "sign_extend", Sort: BV(a.Sort.W + n), Args: []*Term{a}, I1: n})
}

func Concat(a, b *Term) *Term {
	if a.IsConst() && b.IsConst() {
		v := new(big.Int).Lsh(a.Val, uint(b.Sort.W))
		v.Or(v, b.Val)
		return BVC(a.Sort.W+b.Sort.W, v)
	}
	return intern(&Term{Op: "concat", Sort: BV(a.Sort.W + b.Sort.W), Args: []*Term{a, b}})
}

// Resize converts a BV term to width w, sign- or zero-extending per `signed`.
func Resize(a *Term, w int, signed bool) *Term {
	if a.Sort.W == w {
		return a
	}
	if a.Sort.W > w {
		return Extract(w-1, 0, a)
	}
	if signed {
		return SignExt(w-a.Sort.W, a)
	}
	return ZeroExt(w-a.Sort.W, a)
}

// ConstArray is a total array with a default value; concrete entries are layered with Store.
func ConstArray(s *Sort, def *Term) *Term {
	return intern(&Term{Op: "constarray", Sort: s, Args: []*Term{def}})
}

func Store(a, i, v *Term) *Term {
	if a.Sort.Idx != i.Sort || a.Sort.Elem != v.Sort {
		panic(fmt.Sprintf("store sort mismatch %s [%s] := %s", a.Sort, i.Sort, v.Sort))
	}
	if a.Op == "store" && a.Args[1] == i {
		a = a.Args[0]
	}
	return intern(&Term{Op: "store", Sort: a.Sort, Args: []*Term{a, i, v}})
}

func Select(a, i *Term) *Term {
	if a.Sort.Idx != i.Sort {
		panic(fmt.Sprintf("select sort mismatch %s [%s]", a.Sort, i.Sort))
	}
	cur := a
	for {
		if cur.Op == "store" {
			e := Eq(cur.Args[1], i)
			if e == True {
				return cur.Args[2]
			}
			if e == False {
				cur = cur.Args[0]
				continue
			}
			break
		}
		if cur.Op == "constarray" {
			return cur.Args[0]
		}
		break
	}
	if cur != a && cur.Op != "store" {
		a = cur
	}
	if a.Op == "table" {
		return tableSelect(a, i)
	}
	return intern(&Term{Op: "select", Sort: a.Sort.Elem, Args: []*Term{a, i}})
}

// ---- constant tables (package-level arrays), expanded to ite chains on select ----

type tableData struct {
	name string
	vals []*Term // len = table length
	def  *Term
}

var tables = map[string]*tableData{}

func TableTerm(name string, s *Sort, vals []*Term) *Term {
	// most common value becomes the default
	cnt := map[int]int{}
	var def *Term
	for _, v := range vals {
		cnt[v.id]++
		if def == nil || cnt[v.id] > cnt[def.id] {
			def = v
		}
	}
	termMu.Lock()
	tables[name] = &tableData{name: name, vals: vals, def: def}
	termMu.Unlock()
	return intern(&Term{Op: "table", Sort: s, Name: name})
}

func tableSelect(a, i *Term) *Term {
	termMu.Lock()
	td := tables[a.Name]
	termMu.Unlock()
	if i.IsConst() {
		if i.Val.IsInt64() && i.Val.Int64() < int64(len(td.vals)) {
			return td.vals[i.Val.Int64()]
		}
	}
	if len(td.vals) > 300 {
		return intern(&Term{Op: "select", Sort: a.Sort.Elem, Args: []*Term{a, i}})
	}
	// group indices by value
	res := td.def
	groups := map[int][]int{}
	var order []*Term
	for k, v := range td.vals {
		if v == td.def {
			continue
		}
		if _, ok := groups[v.id]; !ok {
			order = append(order, v)
		}
		groups[v.id] = append(groups[v.id], k)
	}
	// strip zero-extension for compact comparisons
	for j := len(order) - 1; j >= 0; j-- {
		v := order[j]
		var ds []*Term
		for _, k := range groups[v.id] {
			ds = append(ds, Eq(i, BVI(i.Sort.W, int64(k))))
		}
		res = Ite(Or(ds...), v, res)
	}
	return res
}

// ---- printing ----

func (t *Term) String() string {
	var sb strings.Builder
	printTerm(&sb, t, nil)
	return sb.String()
}

func smtName(n string) string {
	for _, c := range n {
		if !(c >= 'a' && c <= 'z' || c >= 'A' && c <= 'Z' || c >= '0' && c <= '9' || c == '_' || c == '!' || c == '.' || c == '$' || c == '-') {
			return "|" + n + "|"
		}
	}
	return n
}

func printTerm(sb *strings.Builder, t *Term, names map[int]string) {
	if names != nil {
		if n, ok := names[t.id]; ok {
			sb.WriteString(n)
			return
		}
	}
	switch t.Op {
	case "const":
		if t.Sort.Kind == KBool {
			if t.Val.Sign() != 0 {
				sb.WriteString("true")
			} else {
				sb.WriteString("false")
			}
			return
		}
		if t.Sort.W%4 == 0 {
			s := t.Val.Text(16)
			sb.WriteString("#x")
			for i := len(s); i < t.Sort.W/4; i++ {
				sb.WriteByte('0')
			}
			sb.WriteString(s)
		} else {
			s := t.Val.Text(2)
			sb.WriteString("#b")
			for i := len(s); i < t.Sort.W; i++ {
				sb.WriteByte('0')
			}
			sb.WriteString(s)
		}
	case "var":
		sb.WriteString(smtName(t.Name))
	case "table":
		sb.WriteString(smtName("tbl." + t.Name))
	case "app":
		if len(t.Args) == 0 {
			sb.WriteString(smtName(t.Name))
			return
		}
		sb.WriteByte('(')
		sb.WriteString(smtName(t.Name))
		for _, a := range t.Args {
			sb.WriteByte(' ')
			printTerm(sb, a, names)
		}
		sb.WriteByte(')')
	case "extract":
		fmt.Fprintf(sb, "((_ extract %d %d) ", t.I1, t.I2)
		printTerm(sb, t.Args[0], names)
		sb.WriteByte(')')
	case "zero_extend", "sign_extend":
		fmt.Fprintf(sb, "((_ %s %d) ", t.Op, t.I1)
		printTerm(sb, t.Args[0], names)
		sb.WriteByte(')')
	case "constarray":
		fmt.Fprintf(sb, "((as const %s) ", t.Sort)
		printTerm(sb, t.Args[0], names)
		sb.WriteByte(')')
	default:
		sb.WriteByte('(')
		sb.WriteString(t.Op)
		for _, a := range t.Args {
			sb.WriteByte(' ')
			printTerm(sb, a, names)
		}
		sb.WriteByte(')')
	}
}

// Script builds an SMT-LIB script fragment: declarations for every free symbol in the
// given terms, shared sub-terms as define-funs, then the caller's assertions.
type Script struct {
	decls    []string
	defs     []string
	names    map[int]string
	seenSym  map[string]bool
	sorts    map[string]bool
	refs     map[int]int
	needSpec bool
}

func NewScript() *Script {
	return &Script{names: map[int]string{}, seenSym: map[string]bool{}, sorts: map[string]bool{}, refs: map[int]int{}}
}

func (s *Script) declSort(so *Sort) {
	switch so.Kind {
	case KUnint:
		if !s.sorts[so.Name] {
			s.sorts[so.Name] = true
			s.decls = append(s.decls, fmt.Sprintf("(declare-sort %s 0)", so.Name))
		}
	case KArray:
		s.declSort(so.Idx)
		s.declSort(so.Elem)
	}
}

func (s *Script) count(t *Term) {
	s.refs[t.id]++
	if s.refs[t.id] > 1 {
		return
	}
	for _, a := range t.Args {
		s.count(a)
	}
}

// Prepare registers terms; call before Ref. Order of Prepare calls does not matter.
func (s *Script) Prepare(ts ...*Term) {
	for _, t := range ts {
		s.count(t)
	}
}

func (s *Script) Ref(t *Term) string {
	s.emit(t)
	var sb strings.Builder
	printTerm(&sb, t, s.names)
	return sb.String()
}

func (s *Script) emit(t *Term) {
	if _, ok := s.names[t.id]; ok {
		return
	}
	for _, a := range t.Args {
		s.emit(a)
	}
	switch t.Op {
	case "var":
		if !s.seenSym[t.Name] {
			s.seenSym[t.Name] = true
			s.declSort(t.Sort)
			s.decls = append(s.decls, fmt.Sprintf("(declare-fun %s () %s)", smtName(t.Name), t.Sort))
		}
		return
	case "table":
		n := "tbl." + t.Name
		if !s.seenSym[n] {
			s.seenSym[n] = true
			s.decls = append(s.decls, fmt.Sprintf("(declare-fun %s () %s)", smtName(n), t.Sort))
			// large tables: assert every entry
			termMu.Lock()
			td := tables[t.Name]
			termMu.Unlock()
			for k, v := range td.vals {
				var sb strings.Builder
				printTerm(&sb, v, nil)
				s.decls = append(s.decls, fmt.Sprintf("(assert (= (select %s %s) %s))", smtName(n), BVI(t.Sort.Idx.W, int64(k)), sb.String()))
			}
		}
		return
	case "app":
		if strings.HasPrefix(t.Name, "spec.") {
			s.needSpec = true
		} else if !s.seenSym[t.Name] {
			s.seenSym[t.Name] = true
			s.declSort(t.Sort)
			var as []string
			for _, a := range t.Args {
				s.declSort(a.Sort)
				as = append(as, a.Sort.String())
			}
			s.decls = append(s.decls, fmt.Sprintf("(declare-fun %s (%s) %s)", smtName(t.Name), strings.Join(as, " "), t.Sort))
		}
	case "const":
		return
	}
	if s.refs[t.id] > 1 && len(t.Args) > 0 {
		var sb strings.Builder
		printTerm(&sb, t, s.names)
		n := fmt.Sprintf("t!%d", t.id)
		s.declSort(t.Sort)
		s.defs = append(s.defs, fmt.Sprintf("(define-fun %s () %s %s)", n, t.Sort, sb.String()))
		s.names[t.id] = n
	}
}

func (s *Script) Header() string {
	return strings.Join(s.decls, "\n") + "\n" + strings.Join(s.defs, "\n") + "\n"
}

// Interleaved returns declarations and definitions in a valid order (decls first is valid
// because definitions only reference declared symbols and earlier definitions).
func (s *Script) Lines() []string {
	var out []string
	out = append(out, s.decls...)
	return append(out, s.defs...)
}

// FreeVars lists the variables of a term, sorted by name.
func FreeVars(ts ...*Term) []*Term {
	seen := map[int]bool{}
	var out []*Term
	var walk func(t *Term)
	walk = func(t *Term) {
		if seen[t.id] {
			return
		}
		seen[t.id] = true
		if t.Op == "var" {
			out = append(out, t)
		}
		for _, a := range t.Args {
			walk(a)
		}
	}
	for _, t := range ts {
		walk(t)
	}
	sort.Slice(out, func(i, j int) bool { return out[i].Name < out[j].Name })
	return out
}

// Subst replaces variables (by term identity) throughout t.
func Subst(t *Term, m map[*Term]*Term) *Term {
	memo := map[int]*Term{}
	var rec func(t *Term) *Term
	rec = func(t *Term) *Term {
		if r, ok := m[t]; ok {
			return r
		}
		if r, ok := memo[t.id]; ok {
			return r
		}
		if len(t.Args) == 0 {
			return t
		}
		changed := false
		args := make([]*Term, len(t.Args))
		for i, a := range t.Args {
			args[i] = rec(a)
			if args[i] != a {
				changed = true
			}
		}
		r := t
		if changed {
			r = rebuild(t, args)
		}
		memo[t.id] = r
		return r
	}
	return rec(t)
}

func rebuild(t *Term, a []*Term) *Term {
	switch t.Op {
	case "not":
		return Not(a[0])
	case "and":
		return And(a...)
	case "or":
		return Or(a...)
	case "ite":
		return Ite(a[0], a[1], a[2])
	case "=":
		return Eq(a[0], a[1])
	case "bvadd":
		return Add(a[0], a[1])
	case "bvneg":
		return Neg(a[0])
	case "bvmul":
		return Mul(a[0], a[1])
	case "bvnot":
		return BVNot(a[0])
	case "bvult", "bvule", "bvslt", "bvsle":
		return cmpop(t.Op, a[0], a[1])
	case "extract":
		return Extract(t.I1, t.I2, a[0])
	case "zero_extend":
		return ZeroExt(t.I1, a[0])
	case "sign_extend":
		return SignExt(t.I1, a[0])
	case "concat":
		return Concat(a[0], a[1])
	case "select":
		return Select(a[0], a[1])
	case "store":
		return Store(a[0], a[1], a[2])
	case "app":
		return App(t.Name, t.Sort, a...)
	case "constarray":
		return ConstArray(t.Sort, a[0])
	case "bvand", "bvor", "bvxor", "bvudiv", "bvurem", "bvsdiv", "bvsrem", "bvshl", "bvlshr", "bvashr":
		return BVOp(t.Op, a[0], a[1])
	}
	return intern(&Term{Op: t.Op, Sort: t.Sort, Args: a, Name: t.Name, I1: t.I1, I2: t.I2, Val: t.Val})
}

// Selects collects (array, index) pairs of every select in the terms.
func Selects(ts ...*Term) [][2]*Term {
	seen := map[int]bool{}
	var out [][2]*Term
	var walk func(t *Term)
	walk = func(t *Term) {
		if seen[t.id] {
			return
		}
		seen[t.id] = true
		if t.Op == "select" {
			out = append(out, [2]*Term{t.Args[0], t.Args[1]})
		}
		for _, a := range t.Args {
			walk(a)
		}
	}
	for _, t := range ts {
		walk(t)
	}
	return out
}

// Apps collects applications of the named uninterpreted function.
func Apps(name string, ts ...*Term) []*Term {
	seen := map[int]bool{}
	var out []*Term
	var walk func(t *Term)
	walk = func(t *Term) {
		if seen[t.id] {
			return
		}
		seen[t.id] = true
		if t.Op == "app" && t.Name == name {
			out = append(out, t)
		}
		for _, a := range t.Args {
			walk(a)
		}
	}
	for _, t := range ts {
		walk(t)
	}
	return out
}
