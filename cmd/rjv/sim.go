package main

// Simulation driver: proves a generated machine against the master JSON transducer.
// The specification run R is an uninterpreted function of the position in the input
// (R.q, R.depth, R.frame, R.end); the fold axiom R(k+1) = step(R(k), data[k]) is instantiated
// at every index the path reads. Per cut point the set of spec states that can be current
// there (and, at the pop dispatch, the pairs (return state, spec state)) is computed as a least
// fixpoint from solver models and then verified like any other invariant.

import (
	"fmt"
	"go/ast"
	"go/types"
	"math/big"
	"sort"
	"strconv"
	"strings"
	"sync"
)

type SimCfg struct {
	Variant string // value | travarr | travobj
	Limit   int64  // nesting limit of the spec entry point (-1: none)
	Data    string
	Pos     string
	Delta   int64               // top == depth - Delta
	CutPos  map[string]string   // label pattern -> position expression
	CutKey  map[string][]string // label pattern -> extra key cells
	Stack   string
	Top     string
	Resync  bool // handler machines: after a handler consumed a value the code re-reads its last byte
	Fast    bool // non-validating skip machine: proved under the hypothesis that the spec accepts
	Num     bool // number registers of the spec run (mantissa, digit count, decimal point, exponent)
	Out     bool // output registers of the spec run: the decoded content of the string token
}

type Sim struct {
	cfg    SimCfg
	tab    *specTable
	fp     *FuncProof
	mu     sync.Mutex
	S      map[*Cut]map[string]bool
	K      map[[2]int64]bool // (return state constant, context kind)
	posE   map[*Cut]ast.Expr
	keyE   map[*Cut][]ast.Expr
	arr    *Term
	reg    *Region
	dlen   *Term
	rounds int
}

func parseSimCfg(fc *FuncContract) (*SimCfg, error) {
	if fc == nil || fc.Sim == "" {
		return nil, nil
	}
	c := &SimCfg{Variant: fc.Sim, Limit: -1, Data: "data", Pos: "p", Stack: "stack", Top: "top", CutPos: map[string]string{}, CutKey: map[string][]string{}}
	for k, v := range fc.SimOpts {
		switch {
		case k == "limit":
			n, err := strconv.ParseInt(v, 10, 64)
			if err != nil {
				return nil, err
			}
			c.Limit = n
		case k == "data":
			c.Data = v
		case k == "pos":
			c.Pos = v
		case k == "delta":
			n, _ := strconv.ParseInt(v, 10, 64)
			c.Delta = n
		case k == "resync":
			c.Resync = v == "1"
		case k == "fast":
			c.Fast = v == "1"
		case k == "num":
			c.Num = v == "1"
		case k == "out":
			c.Out = v == "1"
		case k == "stack":
			c.Stack = v
		case k == "top":
			c.Top = v
		case strings.HasPrefix(k, "pos@"):
			c.CutPos[strings.TrimPrefix(k, "pos@")] = v
		case strings.HasPrefix(k, "key@"):
			c.CutKey[strings.TrimPrefix(k, "key@")] = strings.Split(v, "+")
		}
	}
	return c, nil
}

// ---- R terms ----

func (ex *Exec) rName(fn string, arr *Term) string {
	v := ex.simVariant
	if v == "" {
		v = "value"
	}
	if ex.simLimit >= 0 {
		v += fmt.Sprintf("L%d", ex.simLimit)
	}
	return "R" + v + "." + fn + "$" + arr.Name
}

func (ex *Exec) Rq(arr, k *Term) *Term     { return App(ex.rName("q", arr), BV(8), k) }
func (ex *Exec) Rdepth(arr, k *Term) *Term { return App(ex.rName("depth", arr), BV(64), k) }
func (ex *Exec) Rend(arr, k *Term) *Term   { return App(ex.rName("end", arr), BV(64), k) }
func (ex *Exec) Rframe(arr, k *Term) *Term {
	return App(ex.rName("frame", arr), ArraySort(BV(64), BV(8)), k)
}

// Number registers of the spec run: what the number token being read denotes, as a left fold
// over its bytes. mant: value of the first (at most 19) mantissa digits, leading zeros counted as
// digits; nd: number of mantissa digits seen; dot / dp: a decimal point was seen / number of
// digits before it; neg: leading minus; ev / esg: exponent digits folded while below 10000 / sign.
// The literal denotes (-1)^neg * mant * 10^((dot ? dp : nd) + esg*ev - min(nd,19)), exactly if
// nd <= 19 and from below otherwise (positional notation; the caps 19 and 10000 are the
// documented parameters of the conversion: 10^19 fits 64 bits, exponents beyond 10000 saturate).
func (ex *Exec) Rnum(reg string, arr, k *Term) *Term {
	so := BV(64)
	if reg == "dot" || reg == "neg" {
		so = BoolSort
	}
	return App(ex.rName("num."+reg, arr), so, k)
}

func (ex *Exec) numAxiom(arr, k *Term) *Term {
	q, q1 := ex.Rq(arr, k), ex.Rq(arr, Add(k, I64(1)))
	b := Select(arr, k)
	k1 := Add(k, I64(1))
	r := func(reg string) *Term { return ex.Rnum(reg, arr, k) }
	r1 := func(reg string) *Term { return ex.Rnum(reg, arr, k1) }
	start := And(Not(qnamed(q, "InValue.Num*")), qnamed(q1, "InValue.Num*"))
	digitStep := qnamed(q1, "InValue.NumZero@*", "InValue.NumInt@*", "InValue.NumFrac@*")
	dotStep := qnamed(q1, "InValue.NumDot@*")
	expStep := qnamed(q1, "InValue.NumExp@*")
	signStep := qnamed(q1, "InValue.NumESign@*")
	d := ZeroExt(56, Sub(b, BVI(8, '0')))
	m0 := Ite(start, I64(0), r("mant"))
	n0 := Ite(start, I64(0), r("nd"))
	ev0 := Ite(start, I64(0), r("ev"))
	return And(
		Eq(r1("nd"), Add(n0, Ite(digitStep, I64(1), I64(0)))),
		Eq(r1("mant"), Ite(And(digitStep, Slt(n0, I64(19))), Add(Mul(m0, I64(10)), d), m0)),
		Eq(r1("dot"), Ite(start, False, Or(dotStep, r("dot")))),
		Eq(r1("dp"), Ite(start, I64(0), Ite(dotStep, n0, r("dp")))),
		Eq(r1("neg"), Ite(start, Eq(b, BVI(8, '-')), r("neg"))),
		Eq(r1("ev"), Ite(And(expStep, Slt(ev0, I64(10000))), Sub(Add(Mul(ev0, I64(10)), ZeroExt(56, b)), I64('0')), ev0)),
		Eq(r1("esg"), Ite(start, I64(1), Ite(signStep, Ite(Eq(b, BVI(8, '-')), I64(-1), I64(1)), r("esg")))),
	)
}

// Output registers of the spec run: the decoded content of the (value) string token being read,
// per RFC 8259 section 7. Rout(k): number of content bytes produced after k input bytes;
// Robyte(j): the j-th content byte; Rskip(k): inside the second escape of a combined surrogate
// pair. Unescaped bytes are copied, the two-character escapes produce their byte, a \uXXXX escape
// produces the UTF-8 encoding of escRune (surrogate pairs combined, unpaired surrogates U+FFFD).
func (ex *Exec) Rout(arr, k *Term) *Term   { return App(ex.rName("out", arr), BV(64), k) }
func (ex *Exec) Robyte(arr, j *Term) *Term { return App(ex.rName("ob", arr), BV(8), j) }
func (ex *Exec) Rskip(arr, k *Term) *Term  { return App(ex.rName("skip", arr), BoolSort, k) }

func escByteTerm(b *Term) *Term {
	c := func(x byte) *Term { return BVI(8, int64(x)) }
	return Ite(Eq(b, c('b')), c(8), Ite(Eq(b, c('f')), c(12), Ite(Eq(b, c('n')), c(10), Ite(Eq(b, c('r')), c(13), Ite(Eq(b, c('t')), c(9), b)))))
}

func (ex *Exec) outAxiom(arr, k *Term) *Term {
	q, q1 := ex.Rq(arr, k), ex.Rq(arr, Add(k, I64(1)))
	b := Select(arr, k)
	k1 := Add(k, I64(1))
	out, out1 := ex.Rout(arr, k), ex.Rout(arr, k1)
	skip, skip1 := ex.Rskip(arr, k), ex.Rskip(arr, k1)
	inStr := func(x *Term) *Term { return qnamed(x, "InValue.Str*") }
	str := func(x *Term) *Term { return qnamed(x, "InValue.Str@*") }
	start := And(Not(inStr(q)), str(q1))
	plain := And(str(q), str(q1))
	simple := And(qnamed(q, "InValue.StrEsc@*"), str(q1))
	uend := And(qnamed(q, "InValue.StrU4@*"), str(q1))
	e0 := Sub(k, I64(5))
	end := ex.simEnd
	if end == nil {
		end = I64(0)
	}
	r := escRuneSym(arr, e0, end)
	n := u8len(r)
	ubs := []*Term{Sle(I64(1), n), Sle(n, I64(4))}
	for j := int64(0); j < 4; j++ {
		ubs = append(ubs, Implies(Slt(I64(j), n), Eq(ex.Robyte(arr, Add(out, I64(j))), u8b(r, I64(j)))))
	}
	emitU := And(uend, Not(skip))
	return And(
		Implies(start, And(Eq(out1, I64(0)), Not(skip1))),
		Implies(plain, And(Eq(ex.Robyte(arr, out), b), Eq(out1, Add(out, I64(1))), Eq(skip1, skip))),
		Implies(simple, And(Eq(ex.Robyte(arr, out), escByteTerm(b)), Eq(out1, Add(out, I64(1))), Eq(skip1, skip))),
		Implies(emitU, And(And(ubs...), Eq(out1, Add(out, n)), Eq(skip1, escPairSym(arr, e0, end)))),
		Implies(And(uend, skip), And(Eq(out1, out), Not(skip1))),
		Implies(And(Not(start), Not(plain), Not(simple), Not(uend)), And(Eq(out1, out), Eq(skip1, skip))),
	)
}

// Rna / Rno: number of array / object frames open at position k (counters of the spec
// transducer, used only by the bracket-kind-only "fast" machine).
func (ex *Exec) Rna(arr, k *Term) *Term { return App(ex.rName("na", arr), BV(64), k) }
func (ex *Exec) Rno(arr, k *Term) *Term { return App(ex.rName("no", arr), BV(64), k) }

// bottomKind: kind of the outermost open container at position k (0 when none is open).
func (ex *Exec) bottomKind(arr, k *Term) *Term {
	return Ite(Sle(ex.Rdepth(arr, k), I64(0)), I64(0), ZeroExt(56, Select(ex.Rframe(arr, k), I64(0))))
}

func q8(v int) *Term { return BVI(8, int64(v)) }

func afterOfCtx(tab *specTable, ctx *Term) *Term {
	done := q8(tab.Done())
	arrA := q8(tab.ID(rjvSpecAfterValue(rjvSpecCtxArr)))
	objA := q8(tab.ID(rjvSpecAfterValue(rjvSpecCtxObj)))
	return Ite(Eq(ctx, q8(ctxKindTop)), done, Ite(Eq(ctx, q8(ctxKindArr)), arrA, objA))
}

// ctxAt: the context (top / array / object) of nesting level j at position k: level 0 is the
// top level, level j>0 is inside frame[j-1].
func (ex *Exec) ctxAt(arr, k, j *Term) *Term {
	return Ite(Eq(j, I64(0)), q8(ctxKindTop), Select(ex.Rframe(arr, k), Sub(j, I64(1))))
}

// stepAxiom: R(k+1) = step(R(k), data[k]).
func (ex *Exec) stepAxiom(arr, k *Term) *Term {
	tab := specTab()
	q := ex.Rq(arr, k)
	b := Select(arr, k)
	d := ex.Rdepth(arr, k)
	f := ex.Rframe(arr, k)
	k1 := Add(k, I64(1))
	op := App("spec.stepop", BV(8), q, b)
	nq := App("spec.stepq", BV(8), q, b)
	isPushA := Eq(op, q8(rjvSpecOpPushArr))
	isPushO := Eq(op, q8(rjvSpecOpPushObj))
	isPush := Or(isPushA, isPushO)
	isPop := Eq(op, q8(rjvSpecOpPop))
	limitHit := False
	if ex.simLimit >= 0 {
		limitHit = And(isPush, Eq(d, I64(ex.simLimit)))
	}
	dead := q8(tab.Dead())
	popq := Ite(Sle(d, I64(0)), dead, afterOfCtx(tab, ex.ctxAt(arr, k, Sub(d, I64(1)))))
	q1 := Ite(limitHit, dead, Ite(isPop, popq, nq))
	d1 := Ite(limitHit, d, Ite(isPush, Add(d, I64(1)), Ite(isPop, Sub(d, I64(1)), d)))
	kind := Ite(isPushA, q8(ctxKindArr), q8(ctxKindObj))
	f1 := Ite(And(isPush, Not(limitHit)), Store(f, d, kind), f)
	done := q8(tab.Done())
	enters := And(Not(Eq(q, done)), Eq(ex.Rq(arr, k1), done))
	e1 := Ite(enters, Ite(App("spec.endbefore", BoolSort, q, b), k, k1), ex.Rend(arr, k))
	ax := And(Eq(ex.Rq(arr, k1), q1), Eq(ex.Rdepth(arr, k1), d1), Eq(ex.Rframe(arr, k1), f1), Eq(ex.Rend(arr, k1), e1))
	if ex.simFast {
		one := func(c *Term) *Term { return Ite(c, I64(1), I64(0)) }
		topKind := Select(f, Sub(d, I64(1)))
		popping := And(isPop, Not(limitHit), Sle(I64(1), d))
		na1 := Sub(Add(ex.Rna(arr, k), one(And(isPushA, Not(limitHit)))), one(And(popping, Eq(topKind, q8(ctxKindArr)))))
		no1 := Sub(Add(ex.Rno(arr, k), one(And(isPushO, Not(limitHit)))), one(And(popping, Eq(topKind, q8(ctxKindObj)))))
		ax = And(ax, Eq(ex.Rna(arr, k1), na1), Eq(ex.Rno(arr, k1), no1))
	}
	if ex.simNum {
		ax = And(ax, ex.numAxiom(arr, k))
	}
	if ex.simOut {
		ax = And(ax, ex.outAxiom(arr, k))
	}
	if ex.simVariant == "travobj" {
		quote := Eq(b, BVI(8, '"'))
		keyOpen := And(qnamed(q, "ObjFirst", "ObjKey"), Eq(d, I64(1)), quote)
		keyClose := And(qnamed(q, "InKey.Str"), Eq(d, I64(1)), quote)
		ax = And(ax, Eq(ex.Rks(arr, k1), Ite(keyOpen, k, ex.Rks(arr, k))), Eq(ex.Rke(arr, k1), Ite(keyClose, k1, ex.Rke(arr, k))))
	}
	return ax
}

func (ex *Exec) initAxiom(arr *Term) *Term {
	tab := specTab()
	var q0 rjvSpecLocal
	switch ex.simVariant {
	case "travarr":
		q0 = rjvSpecLocal{Ctl: rjvSpecTravArr}
	case "travobj":
		q0 = rjvSpecLocal{Ctl: rjvSpecTravObj}
	default:
		q0 = rjvSpecLocal{Ctl: rjvSpecBefore, Ctx: rjvSpecCtxTop}
	}
	ax := And(Eq(ex.Rq(arr, I64(0)), q8(tab.ID(q0))), Eq(ex.Rdepth(arr, I64(0)), I64(0)))
	if ex.simFast {
		ax = And(ax, Eq(ex.Rna(arr, I64(0)), I64(0)), Eq(ex.Rno(arr, I64(0)), I64(0)))
	}
	return ax
}

// countLemma: consequences of na(k) / no(k) being the number of array / object frames among
// frame(k)[0..depth(k)) (lemma; discharged by induction as spec[value]/lemma/count-*).
func (ex *Exec) countLemma(arr, k *Term) *Term {
	tab := specTab()
	d := ex.Rdepth(arr, k)
	na, no := ex.Rna(arr, k), ex.Rno(arr, k)
	f0 := Select(ex.Rframe(arr, k), I64(0))
	ftop := Select(ex.Rframe(arr, k), Sub(d, I64(1)))
	kind := func(x *Term) *Term { return Or(Eq(x, q8(ctxKindArr)), Eq(x, q8(ctxKindObj))) }
	return And(Implies(Sle(I64(1), d), And(kind(f0), kind(ftop))), Implies(Not(Eq(ex.Rq(arr, k), q8(tab.Dead()))), And(
		Sle(I64(0), d), Sle(d, I64(ex.simLimit)), Sle(I64(0), na), Sle(na, d), Sle(I64(0), no), Sle(no, d),
		Implies(And(Sle(I64(1), d), Eq(f0, q8(ctxKindArr))), Sle(I64(1), na)),
		Implies(And(Sle(I64(1), d), Eq(f0, q8(ctxKindObj))), Sle(I64(1), no)))))
}

// absorbInstance: once Dead or Done, the run stays there (lemma; base and step are checked as
// their own obligations, see specLemmaObligations).
func (ex *Exec) absorbInstance(arr, a, n *Term) *Term {
	tab := specTab()
	qa := ex.Rq(arr, a)
	hyp := And(Sle(I64(0), a), Sle(a, n), Or(Eq(qa, q8(tab.Dead())), Eq(qa, q8(tab.Done()))))
	return Implies(hyp, And(Eq(ex.Rq(arr, n), qa), Eq(ex.Rend(arr, n), ex.Rend(arr, a))))
}

func (ex *Exec) acceptsTerm(arr, n *Term) *Term {
	tab := specTab()
	qn := ex.Rq(arr, n)
	var ds []*Term
	ds = append(ds, Eq(qn, q8(tab.Done())))
	for i := range tab.states {
		if tab.isFinalNumTop(i) {
			ds = append(ds, And(Eq(qn, q8(i)), Eq(ex.Rdepth(arr, n), I64(0))))
		}
	}
	return Or(ds...)
}

func (ex *Exec) endofTerm(arr, n *Term) *Term {
	tab := specTab()
	return Ite(Eq(ex.Rq(arr, n), q8(tab.Done())), ex.Rend(arr, n), n)
}

type simHook struct {
	ex  *Exec
	reg *Region
}

func (h *simHook) OnRead(st *State, reg *Region, idx *Term) {
	if reg != h.reg {
		return
	}
	arr := st.loadArr(h.ex, reg)
	st.assume(h.ex.stepAxiom(arr, idx))
}

// sliceArr returns (array term, absolute offset, length) of a slice value for spec functions.
func sliceArgs(e *Env, a TV, n ast.Expr) (*Term, *Term, *Term) {
	sv, ok := a.V.(*SliceV)
	if !ok {
		e.fail("slice argument expected in %s", exprString(n))
	}
	arr := e.ex.load(e.st, Place{Root: sv.Reg}).(*ArrayV).Arr
	if arr.Op != "var" {
		e.fail("spec run over a modified array in %s", exprString(n))
	}
	return arr, sv.Off, sv.Len
}

func init() {
	specFns["Rq"] = func(e *Env, a []TV, n *ast.CallExpr) TV {
		arr, off, _ := sliceArgs(e, a[0], n)
		return TV{V: e.ex.Rq(arr, Add(off, Resize(argTerm(e, a[1], n), 64, true)))}
	}
	specFns["Rdepth"] = func(e *Env, a []TV, n *ast.CallExpr) TV {
		arr, off, _ := sliceArgs(e, a[0], n)
		return TV{V: e.ex.Rdepth(arr, Add(off, Resize(argTerm(e, a[1], n), 64, true))), Signed: true}
	}
	specFns["Rend"] = func(e *Env, a []TV, n *ast.CallExpr) TV {
		arr, off, _ := sliceArgs(e, a[0], n)
		return TV{V: Sub(e.ex.Rend(arr, Add(off, Resize(argTerm(e, a[1], n), 64, true))), off), Signed: true}
	}
	specFns["Rks"] = func(e *Env, a []TV, n *ast.CallExpr) TV {
		arr, off, _ := sliceArgs(e, a[0], n)
		return TV{V: Sub(e.ex.Rks(arr, Add(off, Resize(argTerm(e, a[1], n), 64, true))), off), Signed: true}
	}
	specFns["Rke"] = func(e *Env, a []TV, n *ast.CallExpr) TV {
		arr, off, _ := sliceArgs(e, a[0], n)
		return TV{V: Sub(e.ex.Rke(arr, Add(off, Resize(argTerm(e, a[1], n), 64, true))), off), Signed: true}
	}
	// Rnum(data, "mant"|"nd"|"dot"|"dp"|"neg"|"ev"|"esg", k): number registers of the spec run
	specFns["Rnum"] = func(e *Env, a []TV, n *ast.CallExpr) TV {
		arr, off, _ := sliceArgs(e, a[0], n)
		bl, ok := n.Args[1].(*ast.BasicLit)
		if !ok {
			e.fail("Rnum: register name expected")
		}
		reg, _ := strconv.Unquote(bl.Value)
		k := Add(off, Resize(argTerm(e, a[2], n), 64, true))
		return TV{V: e.ex.Rnum(reg, arr, k), Signed: true}
	}
	// feq(x, y): Go's == on float64 values (an uninterpreted relation on the IEEE bit patterns)
	specFns["feq"] = func(e *Env, a []TV, n *ast.CallExpr) TV {
		return TV{V: App("f64.eq", BoolSort, Resize(argTerm(e, a[0], n), 64, false), Resize(argTerm(e, a[1], n), 64, false))}
	}
	// fpslow(data, n, "setok"|"b"|"ovf"): the decimal slow path of internal/fp on data[:n] as the
	// composition of the pure functions (*decimal).set (on a zero decimal) and (*decimal).floatBits
	specFns["fpslow"] = func(e *Env, a []TV, n *ast.CallExpr) TV {
		sv, ok := a[0].V.(*SliceV)
		bl, ok2 := n.Args[2].(*ast.BasicLit)
		if !ok || !ok2 {
			e.fail("fpslow(data, n, \"what\")")
		}
		what, _ := strconv.Unquote(bl.Value)
		ln := Resize(argTerm(e, a[1], n), 64, true)
		setFn := e.ex.eng.lookupFunc("fp.(*decimal).set")
		fbFn := e.ex.eng.lookupFunc("fp.(*decimal).floatBits")
		if setFn == nil || fbFn == nil {
			e.fail("fpslow: fp.(*decimal).set / floatBits not found")
		}
		dt := setFn.Params[0].Type().(*types.Pointer).Elem()
		zero := e.ex.zeroValue(e.st, dt)
		arr := e.ex.load(e.st, Place{Root: sv.Reg}).(*ArrayV).Arr
		var flatSet []*Term
		flatSet = append(flatSet, False)
		e.ex.flattenEq(e.st, zero, &flatSet)
		flatSet = append(flatSet, arr, sv.Off, ln)
		setKey, fbKey := calleeKey(setFn), calleeKey(fbFn)
		if what == "setok" {
			return TV{V: App("pure."+setKey+".res0", BoolSort, flatSet...)}
		}
		state1 := e.ex.detValue("pure."+setKey+".arg0", zero, nil, flatSet)
		var flatFB []*Term
		flatFB = append(flatFB, False)
		e.ex.flattenEq(e.st, state1, &flatFB)
		switch what {
		case "b":
			return TV{V: App("pure."+fbKey+".res0", BV(64), flatFB...)}
		case "ovf":
			return TV{V: App("pure."+fbKey+".res1", BoolSort, flatFB...)}
		}
		e.fail("fpslow: unknown component %q", what)
		return TV{}
	}
	// Rout(data, k), Robyte(data, j), Rskip(data, k): output registers of the spec run (decoded string content)
	specFns["Rout"] = func(e *Env, a []TV, n *ast.CallExpr) TV {
		arr, off, _ := sliceArgs(e, a[0], n)
		return TV{V: e.ex.Rout(arr, Add(off, Resize(argTerm(e, a[1], n), 64, true))), Signed: true}
	}
	specFns["Robyte"] = func(e *Env, a []TV, n *ast.CallExpr) TV {
		arr, _, _ := sliceArgs(e, a[0], n)
		return TV{V: e.ex.Robyte(arr, Resize(argTerm(e, a[1], n), 64, true))}
	}
	specFns["Rskip"] = func(e *Env, a []TV, n *ast.CallExpr) TV {
		arr, off, _ := sliceArgs(e, a[0], n)
		return TV{V: e.ex.Rskip(arr, Add(off, Resize(argTerm(e, a[1], n), 64, true)))}
	}
	specFns["accepts"] = func(e *Env, a []TV, n *ast.CallExpr) TV {
		arr, off, ln := sliceArgs(e, a[0], n)
		return TV{V: e.ex.acceptsTerm(arr, Add(off, ln))}
	}
	specFns["endof"] = func(e *Env, a []TV, n *ast.CallExpr) TV {
		arr, off, ln := sliceArgs(e, a[0], n)
		return TV{V: Sub(e.ex.endofTerm(arr, Add(off, ln)), off), Signed: true}
	}
	// sameframe(data, k1, k2): depth and frames agree at the two positions
	specFns["sameframe"] = func(e *Env, a []TV, n *ast.CallExpr) TV {
		arr, off, _ := sliceArgs(e, a[0], n)
		k1 := Add(off, Resize(argTerm(e, a[1], n), 64, true))
		k2 := Add(off, Resize(argTerm(e, a[2], n), 64, true))
		return TV{V: And(Eq(e.ex.Rdepth(arr, k1), e.ex.Rdepth(arr, k2)), Eq(e.ex.Rframe(arr, k1), e.ex.Rframe(arr, k2)))}
	}
	// qis(x, "Name", ...): x is one of the named local states
	specFns["qis"] = nil
	// numcont(q, b): q is a number state and b continues the number
	specFns["numcont"] = func(e *Env, a []TV, n *ast.CallExpr) TV {
		return TV{V: App("spec.numcont", BoolSort, argTerm(e, a[0], n), argByte(e, a[1], n))}
	}
	// litat(data, i, "w"): the bytes of w occur in data at index i (and fit)
	specFns["litat"] = func(e *Env, a []TV, n *ast.CallExpr) TV {
		sv, ok := a[0].V.(*SliceV)
		if !ok {
			e.fail("litat: slice expected")
		}
		arr := e.ex.load(e.st, Place{Root: sv.Reg}).(*ArrayV).Arr
		i := Resize(argTerm(e, a[1], n), 64, true)
		bl, ok := n.Args[2].(*ast.BasicLit)
		if !ok {
			e.fail("litat: string literal expected")
		}
		w, _ := strconv.Unquote(bl.Value)
		cs := []*Term{Sle(I64(0), i), Sle(Add(i, I64(int64(len(w)))), sv.Len)}
		for k := 0; k < len(w); k++ {
			cs = append(cs, Eq(Select(arr, Add(sv.Off, Add(i, I64(int64(k))))), BVI(8, int64(w[k]))))
		}
		return TV{V: And(cs...)}
	}
	// digrun(data, k): index of the first non-digit byte at or after k (len if none)
	specFns["digrun"] = func(e *Env, a []TV, n *ast.CallExpr) TV {
		arr, off, ln := sliceArgs(e, a[0], n)
		k := Add(off, Resize(argTerm(e, a[1], n), 64, true))
		return TV{V: Sub(digrunTerm(e, arr, k, Add(off, ln)), off), Signed: true}
	}
	// DV(data, k, e): decimal value of data[k:e] as a 128-bit number saturating at 2^64
	specFns["DV"] = func(e *Env, a []TV, n *ast.CallExpr) TV {
		arr, off, ln := sliceArgs(e, a[0], n)
		k := Add(off, Resize(argTerm(e, a[1], n), 64, true))
		x := Add(off, Resize(argTerm(e, a[2], n), 64, true))
		return TV{V: dvTerm(e, arr, k, x, Add(off, ln), false)}
	}
	// DVrun(data, k): DV over the maximal digit run starting at k
	specFns["DVrun"] = func(e *Env, a []TV, n *ast.CallExpr) TV {
		arr, off, ln := sliceArgs(e, a[0], n)
		k := Add(off, Resize(argTerm(e, a[1], n), 64, true))
		end := Add(off, ln)
		return TV{V: dvTerm(e, arr, k, digrunTerm(e, arr, k, end), end, true)}
	}
	specFns["pow10"] = func(e *Env, a []TV, n *ast.CallExpr) TV {
		x := Resize(argTerm(e, a[0], n), 64, true)
		res := BVC(128, new(big.Int).Exp(big.NewInt(10), big.NewInt(30), nil))
		for i := 29; i >= 0; i-- {
			res = Ite(Eq(x, I64(int64(i))), BVC(128, new(big.Int).Exp(big.NewInt(10), big.NewInt(int64(i)), nil)), res)
		}
		return TV{V: res}
	}
	// wsrun(data, k): index of the first non-whitespace byte at or after k (len if none)
	specFns["wsrun"] = func(e *Env, a []TV, n *ast.CallExpr) TV {
		arr, off, ln := sliceArgs(e, a[0], n)
		k := Add(off, Resize(argTerm(e, a[1], n), 64, true))
		end := Add(off, ln)
		r := App("wsrun$"+arr.Name, BV(64), k, end)
		isws := func(b *Term) *Term { return byteIn(b, ' ', '\t', '\r', '\n') }
		e.addHyp(Implies(And(Sle(I64(0), k), Sle(k, end)), And(Sle(k, r), Sle(r, end), Or(Eq(r, end), Not(isws(Select(arr, r)))))))
		bv := Fresh("q.w", BV(64))
		e.addQ(&QFact{Guard: And(Sle(I64(0), k), Sle(k, end)), BV: bv, Lo: k, Hi: r, Body: isws(Select(arr, bv)), Name: "wsrun", Seeds: []*Term{r}})
		return TV{V: Sub(r, off), Signed: true}
	}
}

func init() {
	// qis(x, "pattern", ...): x is one of the spec states whose name matches a pattern
	specFns["qis"] = func(e *Env, a []TV, n *ast.CallExpr) TV {
		x := argTerm(e, a[0], n)
		var pats []string
		for _, arg := range n.Args[1:] {
			bl, ok := arg.(*ast.BasicLit)
			if !ok {
				e.fail("qis: string patterns expected")
			}
			p, _ := strconv.Unquote(bl.Value)
			pats = append(pats, p)
		}
		return TV{V: qnamed(x, pats...)}
	}
	// qctx(x): the context kind (0 top, 1 array, 2 object) of a spec state
	specFns["qctx"] = func(e *Env, a []TV, n *ast.CallExpr) TV {
		return TV{V: App("spec.ctxof", BV(8), argTerm(e, a[0], n))}
	}
}

// ---- the driver ----

func (eng *Engine) attachSim(fp *FuncProof) {
	cfg, err := parseSimCfg(fp.fc)
	if err != nil || cfg == nil {
		if err != nil {
			fp.problem("sim config: %v", err)
		}
		return
	}
	ex := fp.ex
	ex.simVariant = cfg.Variant
	ex.simLimit = cfg.Limit
	if fp.opts.SimAs != "" && fp.fc.SimOpts["init"] == "none" {
		ex.simVariant, ex.simLimit = fp.opts.SimAs, -1
		cfg.Variant, cfg.Limit = fp.opts.SimAs, -1
	}
	ex.simFast = cfg.Fast
	ex.simNum = cfg.Num
	ex.simOut = cfg.Out
	sv, ok := ex.params[cfg.Data].(*SliceV)
	if !ok {
		fp.problem("sim: no slice parameter %s", cfg.Data)
		return
	}
	sim := &Sim{cfg: *cfg, tab: specTab(), fp: fp, S: map[*Cut]map[string]bool{}, K: map[[2]int64]bool{}, posE: map[*Cut]ast.Expr{}, keyE: map[*Cut][]ast.Expr{}}
	sim.reg = sv.Reg
	sim.arr = fp.s0.loadArr(ex, sv.Reg)
	sim.dlen = sv.Len
	ex.simEnd = Add(sv.Off, sv.Len)
	// the fold axiom, instantiated at every index at which the VC mentions a byte of the input
	bv := Fresh("q.fold", BV(64))
	fp.s0.qfacts = append(fp.s0.qfacts, &QFact{Guard: True, BV: bv, Body: ex.stepAxiom(sim.arr, bv), Name: "fold", OnlySelect: true, SelectRoot: sim.arr})
	// the absorption lemma (proved separately by induction: spec/absorb/base, spec/absorb/step)
	av := Fresh("q.abs", BV(64))
	n := Add(sv.Off, sv.Len)
	tab := specTab()
	qa := ex.Rq(sim.arr, av)
	fp.s0.qfacts = append(fp.s0.qfacts, &QFact{Guard: And(Sle(I64(0), av), Sle(av, n), Or(Eq(qa, q8(tab.Dead())), Eq(qa, q8(tab.Done())))), BV: av,
		Body: And(Eq(ex.Rq(sim.arr, n), qa), Eq(ex.Rend(sim.arr, n), ex.Rend(sim.arr, av))), Name: "absorb"})
	fp.sim = sim
	if cfg.Fast {
		// the machine is only claimed correct on inputs the specification accepts: every clause
		// proved in this mode has the form accepts(data) ==> ..., and the hypothesis is assumed here
		fp.s0.assume(ex.acceptsTerm(sim.arr, n))
		cv := Fresh("q.cnt", BV(64))
		fp.s0.qfacts = append(fp.s0.qfacts, &QFact{Guard: And(Sle(I64(0), cv), Sle(cv, n)), BV: cv, Body: ex.countLemma(sim.arr, cv), Name: "count"})
	}
	// the fold starts at position 0 of the function's own data (top-level machines only)
	if fp.fc.SimOpts["init"] != "none" {
		fp.s0.assume(ex.initAxiom(sim.arr))
	}
	if cfg.Variant == "value" {
		// lemma ws-prefix (base/step discharged as spec/wsprefix/*): if the run is in its initial
		// configuration at the start of data, it stays there throughout the leading whitespace run
		w := App("wsrun$"+sim.arr.Name, BV(64), sv.Off, n)
		jv := Fresh("q.ws", BV(64))
		before := q8(tab.ID(rjvSpecLocal{Ctl: rjvSpecBefore, Ctx: rjvSpecCtxTop}))
		atStart := And(Eq(ex.Rq(sim.arr, sv.Off), before), Eq(ex.Rdepth(sim.arr, sv.Off), I64(0)))
		fp.s0.qfacts = append(fp.s0.qfacts, &QFact{Guard: atStart, BV: jv, Lo: sv.Off, Hi: Add(w, I64(1)),
			Body: And(Eq(ex.Rq(sim.arr, jv), before), Eq(ex.Rdepth(sim.arr, jv), I64(0))), Name: "wsprefix", Seeds: []*Term{w}})
	}
}

func (s *Sim) setupCuts() {
	fp := s.fp
	for _, c := range fp.cuts {
		pos := s.cfg.Pos
		var keys []string
		for pat, v := range s.cfg.CutPos {
			if matchLabel(pat, c.Label) {
				pos = v
			}
		}
		for pat, v := range s.cfg.CutKey {
			if matchLabel(pat, c.Label) {
				keys = v
			}
		}
		e, err := parseSpecExpr(pos)
		if err != nil {
			fp.problem("sim pos %q: %v", pos, err)
			continue
		}
		s.posE[c] = e
		for _, k := range keys {
			ke, err := parseSpecExpr(k)
			if err != nil {
				fp.problem("sim key %q: %v", k, err)
				continue
			}
			s.keyE[c] = append(s.keyE[c], ke)
		}
		s.S[c] = map[string]bool{}
	}
}

func (s *Sim) rawPos(c *Cut, st *State) *Term {
	env := s.fp.ex.cellEnv(st, false)
	var hs []*Term
	var qs []*QFact
	env.hsink, env.qsink = &hs, &qs
	t, err := env.EvalTerm(s.posE[c])
	if err != nil {
		s.fp.problem("sim position at %s: %v", c.Label, err)
		return I64(0)
	}
	return Resize(t, 64, true)
}

// resyncing: the machine is about to re-read the last byte of a value the handler consumed.
func (s *Sim) resyncing(c *Cut, st *State) *Term {
	if !s.cfg.Resync || s.hasFixedPos(c) {
		return False
	}
	rp, ok := st.ghost["rspos"]
	if !ok {
		return False
	}
	return Eq(s.rawPos(c, st), rp)
}

func (s *Sim) hasFixedPos(c *Cut) bool {
	for pat := range s.cfg.CutPos {
		if matchLabel(pat, c.Label) {
			return true
		}
	}
	return false
}

func (s *Sim) posTerm(c *Cut, st *State) *Term {
	p := s.rawPos(c, st)
	return Ite(s.resyncing(c, st), Add(p, I64(1)), p)
}

// keyTerms: the tuple whose possible values are tracked at the cut: extra cells, then R.q(pos).
func (s *Sim) keyTerms(c *Cut, st *State) []*Term {
	var out []*Term
	env := s.fp.ex.cellEnv(st, false)
	var hs []*Term
	var qs []*QFact
	env.hsink, env.qsink = &hs, &qs
	for _, ke := range s.keyE[c] {
		t, err := env.EvalTerm(ke)
		if err != nil {
			s.fp.problem("sim key at %s: %v", c.Label, err)
			t = I64(0)
		}
		out = append(out, t)
	}
	if s.cfg.Resync {
		rs := s.resyncing(c, st)
		out = append(out, Ite(rs, I64(1), I64(0)))
		rsb := st.ghost["rsb"]
		if rsb == nil {
			rsb = BVI(8, 0)
		}
		// which closing byte is being re-read (0 when not resyncing)
		out = append(out, Ite(rs, ZeroExt(56, rsb), I64(0)))
	}
	if s.cfg.Fast {
		out = append(out, s.fp.ex.bottomKind(s.arr, s.posTerm(c, st)))
	}
	out = append(out, s.fp.ex.Rq(s.arr, s.posTerm(c, st)))
	return out
}

func tupleKey(vals []int64) string {
	var ps []string
	for _, v := range vals {
		ps = append(ps, strconv.FormatInt(v, 10))
	}
	return strings.Join(ps, "|")
}

func parseTuple(k string) []int64 {
	var out []int64
	for _, p := range strings.Split(k, "|") {
		v, _ := strconv.ParseInt(p, 10, 64)
		out = append(out, v)
	}
	return out
}

// member: the key tuple at the cut is one of the tuples found so far.
func (s *Sim) member(c *Cut, st *State) *Term {
	keys := s.keyTerms(c, st)
	s.mu.Lock()
	var tuples []string
	for k := range s.S[c] {
		tuples = append(tuples, k)
	}
	s.mu.Unlock()
	sort.Strings(tuples)
	var ds []*Term
	for _, tk := range tuples {
		vals := parseTuple(tk)
		var cs []*Term
		for i, v := range vals {
			cs = append(cs, Eq(keys[i], BVI(keys[i].Sort.W, v)))
		}
		ds = append(ds, And(cs...))
	}
	return Or(ds...)
}

func (s *Sim) stackCells(st *State) (*SliceV, *Term, bool) {
	env := s.fp.ex.cellEnv(st, false)
	stv, ok1 := env.lookup(s.cfg.Stack)
	tv, ok2 := env.lookup(s.cfg.Top)
	if !ok1 || !ok2 {
		return nil, nil, false
	}
	sl, ok := stv.V.(*SliceV)
	tt, ok3 := tv.V.(*Term)
	if !ok || !ok3 {
		return nil, nil, false
	}
	return sl, tt, true
}

// stackRel: for every live stack slot i, the pushed return state is one that was pushed in the
// context of nesting level i+Delta. As a hypothesis it is a bounded quantified fact; as a goal it
// is skolemised (the skolem index is returned so that a model can be read back).
func (s *Sim) stackRel(c *Cut, st *State, prove bool) (*Term, []*QFact, []*Term) {
	sl, top, ok := s.stackCells(st)
	if !ok {
		return True, nil, nil
	}
	ex := s.fp.ex
	pos := s.posTerm(c, st)
	arr := st.loadArr(ex, sl.Reg)
	s.mu.Lock()
	var pairs [][2]int64
	for p := range s.K {
		pairs = append(pairs, p)
	}
	s.mu.Unlock()
	sort.Slice(pairs, func(i, j int) bool {
		if pairs[i][0] != pairs[j][0] {
			return pairs[i][0] < pairs[j][0]
		}
		return pairs[i][1] < pairs[j][1]
	})
	body := func(i *Term) (*Term, *Term, *Term) {
		elem := Select(arr, Add(sl.Off, i))
		ctx := ex.ctxAt(s.arr, pos, Add(i, I64(s.cfg.Delta)))
		if s.cfg.Fast {
			// slot 0 was pushed at top level, every other slot inside the outermost container
			ctx = Ite(Eq(i, I64(0)), q8(ctxKindTop), Select(ex.Rframe(s.arr, pos), I64(0)))
		}
		var ds []*Term
		for _, p := range pairs {
			ds = append(ds, And(Eq(elem, I64(p[0])), Eq(ctx, q8(int(p[1])))))
		}
		return Or(ds...), elem, ctx
	}
	if prove {
		i := Fresh("sk.i", BV(64))
		b, elem, ctx := body(i)
		return Implies(And(Sle(I64(0), i), Slt(i, top)), b), nil, []*Term{i, elem, ctx, top}
	}
	bv := Fresh("q.i", BV(64))
	b, _, _ := body(bv)
	q := &QFact{Guard: True, BV: bv, Lo: I64(0), Hi: top, Body: b, Name: "stackrel", Seeds: []*Term{Sub(top, I64(1))}}
	return True, []*QFact{q}, nil
}

// fixedAtoms: relational atoms that accompany the membership invariant (droppable per cut).
func (s *Sim) fixedAtoms(c *Cut) []*Atom {
	ex := s.fp.ex
	tab := s.tab
	mk := func(name string, f func(st *State) *Term) *Atom {
		return &Atom{Name: name, Droppable: true, Fn: func(_ *Exec, st *State, prove bool) (*Term, error) { return f(st), nil }}
	}
	var out []*Atom
	if s.cfg.Fast {
		out = append(out, mk("sim:top==same-kind-depth", func(st *State) *Term {
			_, top, ok := s.stackCells(st)
			if !ok {
				return True
			}
			pos := s.posTerm(c, st)
			d := ex.Rdepth(s.arr, pos)
			f0 := Select(ex.Rframe(s.arr, pos), I64(0))
			return Eq(top, Ite(Sle(d, I64(0)), I64(0), Ite(Eq(f0, q8(ctxKindArr)), ex.Rna(s.arr, pos), ex.Rno(s.arr, pos))))
		}))
	}
	out = append(out, mk("sim:top==depth-delta", func(st *State) *Term {
		_, top, ok := s.stackCells(st)
		if !ok || s.cfg.Fast {
			return True
		}
		k := I64(0)
		if s.cfg.Resync {
			rsb := st.ghost["rsb"]
			if rsb != nil {
				k = Ite(And(s.resyncing(c, st), Or(Eq(rsb, BVI(8, ']')), Eq(rsb, BVI(8, '}')))), I64(1), I64(0))
			}
		}
		d := ex.Rdepth(s.arr, s.posTerm(c, st))
		// traversal machines (Delta = 1): the traversed container itself is not on the code's stack
		rel := Ite(Sle(I64(s.cfg.Delta), d), Sub(d, I64(s.cfg.Delta)), I64(0))
		return Eq(top, Add(rel, k))
	}))
	if s.cfg.Resync {
		out = append(out, mk("sim:resync-byte", func(st *State) *Term {
			rsb := st.ghost["rsb"]
			if rsb == nil {
				return True
			}
			return Implies(s.resyncing(c, st), Eq(Select(s.arr, s.rawPos(c, st)), rsb))
		}))
	}
	out = append(out, mk("sim:ctx-consistent", func(st *State) *Term {
		pos := s.posTerm(c, st)
		q := ex.Rq(s.arr, pos)
		d := ex.Rdepth(s.arr, pos)
		ctx := ex.ctxAt(s.arr, pos, d)
		co := App("spec.ctxof", BV(8), q)
		// the context of the state is the innermost open container; "top" context iff depth 0
		return And(Or(Eq(co, q8(3)), And(Eq(ctx, co), Eq(Eq(co, q8(ctxKindTop)), Eq(d, I64(0))))), Sle(I64(0), d))
	}))
	out = append(out, mk("sim:done-end==pos", func(st *State) *Term {
		pos := s.posTerm(c, st)
		return Implies(Eq(ex.Rq(s.arr, pos), q8(tab.Done())), Eq(ex.Rend(s.arr, pos), pos))
	}))
	out = append(out, mk("sim:number-ended", func(st *State) *Term {
		pos := s.posTerm(c, st)
		q := ex.Rq(s.arr, pos)
		return Or(Eq(pos, s.dlen), Not(App("spec.numcont", BoolSort, q, Select(s.arr, pos))))
	}))
	out = append(out, mk("sim:pos<=len", func(st *State) *Term {
		pos := s.posTerm(c, st)
		return And(Sle(I64(0), pos), Sle(pos, s.dlen))
	}))
	return out
}

func (s *Sim) describe() map[string]interface{} {
	out := map[string]interface{}{}
	pairs := 0
	var sample []string
	var labels []string
	byLabel := map[string]*Cut{}
	for c := range s.S {
		labels = append(labels, c.Label)
		byLabel[c.Label] = c
	}
	sort.Strings(labels)
	for _, l := range labels {
		c := byLabel[l]
		pairs += len(s.S[c])
		if len(sample) < 12 {
			var ns []string
			for tk := range s.S[c] {
				vals := parseTuple(tk)
				nm := s.tab.name(int(vals[len(vals)-1]))
				if len(vals) > 1 {
					nm = fmt.Sprintf("(%d,%s)", vals[0], nm)
				}
				ns = append(ns, nm)
			}
			sort.Strings(ns)
			sample = append(sample, l+": "+strings.Join(ns, " "))
		}
	}
	out["inferred_spec_pairs"] = pairs
	out["return_state_contexts"] = len(s.K)
	out["sample_cut_invariants"] = sample
	out["spec_states"] = len(s.tab.states)
	return out
}

func isDigitTerm(b *Term) *Term { return byteRange(b, '0', '9') }

func digrunTerm(e *Env, arr, k, end *Term) *Term {
	r := App("digrun$"+arr.Name, BV(64), k, end)
	e.addHyp(Implies(And(Sle(I64(0), k), Sle(k, end)), And(Sle(k, r), Sle(r, end), Or(Eq(r, end), Not(isDigitTerm(Select(arr, r)))))))
	bv := Fresh("q.d", BV(64))
	e.addQ(&QFact{Guard: And(Sle(I64(0), k), Sle(k, end)), BV: bv, Lo: k, Hi: r, Body: isDigitTerm(Select(arr, bv)), Name: "digrun", Seeds: []*Term{r}})
	return r
}

var satLimit = new(big.Int).Lsh(big.NewInt(1), 64)

// dvTerm: DV(k, x) with its defining axioms (base, step at every index read) and, for the value
// over the whole digit run, the stickiness lemma instance schema (proved as spec/DVsticky/*).
func dvTerm(e *Env, arr, k, x, end *Term, run bool) *Term {
	name := "DV$" + arr.Name
	dv := func(a *Term) *Term { return App(name, BV(128), k, a) }
	sat := BVC(128, satLimit)
	e.addHyp(Eq(dv(k), BVI(128, 0)))
	bv := Fresh("q.e", BV(64))
	d := ZeroExt(120, Sub(Select(arr, bv), BVI(8, '0')))
	nx := Add(Mul(dv(bv), BVI(128, 10)), d)
	step := Implies(And(Sle(k, bv), isDigitTerm(Select(arr, bv))), Eq(dv(Add(bv, I64(1))), Ite(Ule(sat, nx), sat, nx)))
	e.addQ(&QFact{Guard: True, BV: bv, Body: And(step, Ule(dv(bv), sat)), Name: "DVstep", OnlySelect: true, SelectRoot: arr})
	if run {
		av := Fresh("q.a", BV(64))
		e.addQ(&QFact{Guard: And(Sle(k, av), Sle(av, x), Eq(dv(av), sat)), BV: av, Body: Eq(dv(x), sat), Name: "DVsticky"})
	}
	return dv(x)
}

// qnamed: disjunction "x is one of the spec states whose name matches one of the patterns".
func qnamed(x *Term, pats ...string) *Term {
	tab := specTab()
	var ds []*Term
	for i := range tab.states {
		nm := tab.name(i)
		for _, p := range pats {
			if matchSpecName(p, nm) {
				ds = append(ds, Eq(x, q8(i)))
				break
			}
		}
	}
	return Or(ds...)
}

func matchSpecName(pat, name string) bool {
	if strings.HasSuffix(pat, "*") {
		return strings.HasPrefix(name, strings.TrimSuffix(pat, "*"))
	}
	return pat == name
}

// memberStart: at position k the spec run begins a member value of the traversed container
// (depth 1, in a state that expects a value, and the byte starts a value).
func (s *Sim) memberStart(k *Term) *Term {
	ex := s.fp.ex
	tab := s.tab
	q := ex.Rq(s.arr, k)
	b := Select(s.arr, k)
	var states *Term
	if s.cfg.Variant == "travobj" {
		states = qnamed(q, "ObjValue")
	} else {
		states = qnamed(q, "ArrFirst", "ArrValue")
	}
	isws := byteIn(b, ' ', '\t', '\r', '\n')
	nq := App("spec.stepq", BV(8), q, b)
	op := App("spec.stepop", BV(8), q, b)
	return And(states, Eq(ex.Rdepth(s.arr, k), I64(1)), Not(isws), Not(Eq(op, q8(rjvSpecOpPop))), Not(Eq(nq, q8(tab.Dead()))))
}

// eventObligations (C07): every handler call is at a member start with the right arguments, and
// every member start is a handler call.
func (s *Sim) eventObligations(pe *PathEnd) []goalItem {
	fp := s.fp
	if fp.opts.Mode != "wellbehaved" || pe.From == nil {
		return nil
	}
	fnName := fp.eng.displayName(fp.fn)
	from := fp.fromLabel(pe)
	var items []goalItem
	start := pe.Start.clone()
	rs := s.resyncing(pe.From, start)
	k := s.rawPos(pe.From, start)
	inv := invokes(pe)
	for n, ev := range inv {
		mp := ev.Info["memberpos"]
		if mp == nil {
			continue
		}
		g := []*Term{s.memberStart(mp), Eq(mp, k), Not(rs)}
		name := "array-member"
		if s.cfg.Variant == "travobj" && len(ev.Args) == 2 {
			name = "object-member"
			if f, ok := ev.Args[0].(*SliceV); ok {
				ks := fp.ex.Rks(s.arr, mp)
				ke := fp.ex.Rke(s.arr, mp)
				g = append(g, BoolC(f.Reg == s.reg), Eq(f.Off, Add(ks, I64(1))), Eq(f.Len, Sub(Sub(ke, ks), I64(2))))
			} else {
				g = append(g, False)
			}
		}
		if d, ok := ev.Args[len(ev.Args)-1].(*SliceV); ok {
			g = append(g, BoolC(d.Reg == s.reg), Eq(d.Off, mp), Eq(Add(d.Off, d.Len), s.dlen))
		}
		items = append(items, goalItem{name: fmt.Sprintf("%s/%s/event/%s-call#%d-at-member-start-with-member-arguments", fnName, from, name, n+1), kind: "event", t: And(g...), nhyp: ev.NPC})
	}
	if !s.hasFixedPos(pe.From) {
		if len(inv) == 0 {
			items = append(items, goalItem{name: fmt.Sprintf("%s/%s/event/member-start-implies-handler-call", fnName, from), kind: "event", t: Not(And(Not(rs), s.memberStart(k))), nhyp: -1})
		} else if len(inv) > 1 {
			items = append(items, goalItem{name: fmt.Sprintf("%s/%s/event/one-handler-call-per-member", fnName, from), kind: "event", t: False, nhyp: -1})
		}
	}
	return items
}

// key registers of the object traversal (positions of the opening quote of the current key and
// of the byte after its closing quote), part of the same fold
func (ex *Exec) Rks(arr, k *Term) *Term { return App(ex.rName("ks", arr), BV(64), k) }
func (ex *Exec) Rke(arr, k *Term) *Term { return App(ex.rName("ke", arr), BV(64), k) }
