package main

// Per-function proof: cut-point (Floyd) verification conditions with given and inferred
// (Houdini) invariants; the final check pass is what fills the ledger.

import (
	"fmt"
	"go/ast"
	"go/token"
	"os"
	"sort"
	"strconv"
	"strings"
	"sync"
	"time"

	"golang.org/x/tools/go/ssa"
)

type Atom struct {
	Name      string
	Expr      ast.Expr
	Fn        func(ex *Exec, st *State, prove bool) (*Term, error)
	Droppable bool
	Label     string
}

type evalRes struct {
	t  *Term
	hs []*Term
	qs []*QFact
}

func (a *Atom) eval(ex *Exec, st *State, prove bool) (evalRes, error) {
	var r evalRes
	if a.Fn != nil {
		npc, nq := len(st.pc), len(st.qfacts)
		t, err := a.Fn(ex, st, prove)
		r.t = t
		r.hs = append(r.hs, st.pc[npc:]...)
		r.qs = append(r.qs, st.qfacts[nq:]...)
		st.pc = st.pc[:npc]
		st.qfacts = st.qfacts[:nq]
		return r, err
	}
	env := ex.cellEnv(st, prove)
	env.hsink = &r.hs
	env.qsink = &r.qs
	if env.old != nil {
		env.old.hsink = &r.hs
		env.old.qsink = &r.qs
	}
	t, err := env.EvalBool(a.Expr)
	r.t = t
	return r, err
}

type ProofOpts struct {
	Mode      string
	QuickMs   int
	SlowMs    int
	Thorough  bool
	Verbose   bool
	Sim       bool
	SimAs     string              // variant override for relative contracts
	Alloc     bool                // activate the @alloc clauses (ghost allocation counter bounds)
	Rel       bool                // also prove independence from the scratch parameters (2-safety)
	OnlyKinds map[string]bool     // restrict the check pass to these obligation kinds (no inference)
	Hook      func(fp *FuncProof) // driver-specific setup (adds atoms, spec hooks)
	ExtraExit func(fp *FuncProof, pe *PathEnd) []*Oblig
}

type FuncProof struct {
	eng    *Engine
	ex     *Exec
	fn     *ssa.Function
	fc     *FuncContract
	opts   ProofOpts
	cuts   []*Cut
	cutMap map[*ssa.BasicBlock]*Cut
	given  map[*Cut][]*Atom
	cands  map[*Cut][]*Atom
	alive  map[*Cut]map[*Atom]bool
	meas   map[*Cut]*Atom
	starts map[*Cut]*State
	paths  []*PathEnd
	s0     *State

	startEval map[*Cut]map[*Atom]evalRes
	endEval   map[*PathEnd]map[*Atom]evalRes

	ledger     *Ledger
	stats      ProofStats
	weak       map[[2]int]bool
	problems   []string
	reach      map[*Cut]map[*Cut]bool
	sim        *Sim
	growBlocks map[int]bool
	usedHints  bool
	retOrd     map[token.Pos]int
	mu         sync.Mutex
}

type ProofStats struct {
	Function     string   `json:"function"`
	Mode         string   `json:"mode"`
	Blocks       int      `json:"blocks"`
	Instrs       int      `json:"instructions"`
	CutPoints    int      `json:"cut_points"`
	Paths        int      `json:"paths"`
	Candidates   int      `json:"candidate_atoms"`
	Kept         int      `json:"inferred_atoms_kept"`
	HoudiniIters int      `json:"houdini_rounds"`
	Queries      int      `json:"queries"`
	Secs         float64  `json:"wall_seconds"`
	Unsupported  []string `json:"unsupported,omitempty"`
	WeakEdges    int      `json:"non_strict_measure_edges"`
	Hints        bool     `json:"inference_started_from_hint_file"`
}

func (eng *Engine) NewFuncProof(fn *ssa.Function, fc *FuncContract, opts ProofOpts) *FuncProof {
	ex := eng.newExec(fn, fc, opts.Mode)
	ex.relMode = opts.Rel
	ex.allocMode = opts.Alloc
	if opts.Sim && fc != nil && fc.Sim != "" {
		if cfg, err := parseSimCfg(fc); err == nil && cfg != nil {
			ex.simVariant = cfg.Variant
			ex.simLimit = cfg.Limit
			if opts.SimAs != "" && fc.SimOpts["init"] == "none" {
				ex.simVariant, ex.simLimit = opts.SimAs, -1
			}
			ex.simFast = cfg.Fast
			ex.simNum = cfg.Num
			ex.simOut = cfg.Out
		}
	}
	fp := &FuncProof{eng: eng, ex: ex, fn: fn, fc: fc, opts: opts,
		given: map[*Cut][]*Atom{}, cands: map[*Cut][]*Atom{}, alive: map[*Cut]map[*Atom]bool{}, meas: map[*Cut]*Atom{},
		starts: map[*Cut]*State{}, startEval: map[*Cut]map[*Atom]evalRes{}, endEval: map[*PathEnd]map[*Atom]evalRes{},
		ledger: NewLedger(), weak: map[[2]int]bool{}, cutMap: map[*ssa.BasicBlock]*Cut{}}
	return fp
}

func (fp *FuncProof) problem(format string, a ...interface{}) {
	fp.mu.Lock()
	fp.problems = append(fp.problems, fmt.Sprintf(format, a...))
	fp.mu.Unlock()
}

// Prepare: cut points, invariants from the contract, path enumeration.
func (fp *FuncProof) Prepare() {
	ex := fp.ex
	fp.s0 = ex.entryState()
	if fp.fc != nil && fp.fc.Sim != "" && fp.opts.Sim {
		fp.eng.attachSim(fp)
	}
	fp.cuts = ex.findCuts()
	for _, c := range fp.cuts {
		fp.cutMap[c.Block] = c
	}
	if fp.sim != nil {
		fp.sim.setupCuts()
		for _, c := range fp.cuts {
			fp.cands[c] = append(fp.cands[c], fp.sim.fixedAtoms(c)...)
		}
	}
	// atoms from the contract
	if fp.fc != nil {
		for _, c := range fp.cuts {
			if c.LoopOrd > 0 {
				if lc := fp.fc.Loops[c.LoopOrd]; lc != nil {
					for k, cl := range lc.Invariants {
						if !ex.clauseActive(cl) {
							continue
						}
						fp.given[c] = append(fp.given[c], &Atom{Name: fmt.Sprintf("inv#%d", k+1), Expr: cl.Expr, Label: cl.Label})
					}
					if lc.Decreases != nil {
						fp.meas[c] = &Atom{Name: "decreases", Expr: lc.Decreases.Expr}
					}
				}
			} else {
				for _, cl := range fp.fc.Candidates {
					if !ex.clauseActive(cl) {
						continue
					}
					fp.cands[c] = append(fp.cands[c], &Atom{Name: cl.Text, Expr: cl.Expr, Droppable: true})
				}
				for _, tmpl := range fp.fc.PerConst {
					for _, k := range ex.storedConsts() {
						txt := strings.ReplaceAll(tmpl, "$c", fmt.Sprint(k))
						e, err := parseSpecExpr(txt)
						if err != nil {
							fp.problem("perconst %q: %v", txt, err)
							continue
						}
						fp.cands[c] = append(fp.cands[c], &Atom{Name: txt, Expr: e, Droppable: true})
					}
				}
				if fp.fc.Measure != nil {
					fp.meas[c] = &Atom{Name: "measure", Expr: fp.fc.Measure.Expr}
				}
			}
		}
	}
	// entry-final state for frozen cells
	ex.entryFinal = nil
	if len(fp.fn.Blocks) > 0 && len(fp.fn.Blocks[0].Preds) == 0 && !ex.cutAt[fp.fn.Blocks[0]] {
		b := fp.fn.Blocks[0]
		states := []*State{fp.s0.clone()}
		ok := true
		for _, ins := range b.Instrs[:len(b.Instrs)-1] {
			states = ex.execInstr(states[0], ins)
			if len(states) != 1 || states[0].dead {
				ok = false
				break
			}
		}
		if ok {
			ex.entryFinal = states[0]
		}
	}
	if fp.opts.Hook != nil {
		fp.opts.Hook(fp)
	}
	base := fp.s0
	if ex.entryFinal != nil {
		base = ex.entryFinal
	}
	emit := func(pe *PathEnd) { fp.paths = append(fp.paths, pe) }
	// entry paths
	if len(fp.fn.Blocks) > 0 {
		st := fp.s0.clone()
		ex.explore(st, fp.fn.Blocks[0], nil, fp.cutMap, fp.s0, !ex.cutAt[fp.fn.Blocks[0]] || true, emit)
	}
	for _, c := range fp.cuts {
		start := ex.cutState(base, c)
		fp.starts[c] = start
		ex.explore(start.clone(), c.Block, c, fp.cutMap, start, true, emit)
	}
	for _, c := range fp.cuts {
		fp.alive[c] = map[*Atom]bool{}
		for _, a := range fp.cands[c] {
			fp.alive[c][a] = true
			fp.stats.Candidates++
		}
	}
	fp.stats.Function = fp.fn.Name()
	fp.stats.Mode = fp.opts.Mode
	fp.stats.Blocks = len(fp.fn.Blocks)
	for _, b := range fp.fn.Blocks {
		fp.stats.Instrs += len(b.Instrs)
	}
	fp.stats.CutPoints = len(fp.cuts)
	fp.stats.Paths = len(fp.paths)
	if len(fp.cuts) > 0 {
		fp.sameSCC(fp.cuts[0], fp.cuts[0])
	}
	fp.classifyReturnStates()
}

// classifyReturnStates splits the constants stored into scratch []int slices (the machines'
// return states) into those pushed at nesting level 0 and the rest. Level 0 is approximated as
// "on a path from entry that has neither pushed nor popped"; a wrong guess can only make the
// proof fail, since the resulting invariant is checked like any other.
func (fp *FuncProof) classifyReturnStates() {
	ex := fp.ex
	ex.retMain, ex.retSub = map[int64]bool{}, map[int64]bool{}
	t0 := map[*Cut]bool{}
	plain := func(pe *PathEnd) bool {
		for _, ev := range pe.St.events {
			if ev.Kind == "store-elem" || ev.Kind == "load-elem" {
				return false
			}
		}
		return true
	}
	changed := true
	for changed {
		changed = false
		for _, pe := range fp.paths {
			if pe.Kind != "cut" || !(pe.From == nil || t0[pe.From]) || t0[pe.To] {
				continue
			}
			if plain(pe) {
				t0[pe.To] = true
				changed = true
			}
		}
	}
	for _, pe := range fp.paths {
		lvl0 := pe.From == nil || t0[pe.From]
		for _, ev := range pe.St.events {
			if ev.Kind == "store-elem" {
				v := ev.Info["val"]
				if v.IsConst() && v.Sort.W == 64 {
					k := v.SVal().Int64()
					if lvl0 {
						ex.retMain[k] = true
					} else {
						ex.retSub[k] = true
					}
				}
			}
		}
	}
}

func (fp *FuncProof) evalStart(c *Cut, a *Atom) evalRes {
	fp.mu.Lock()
	m := fp.startEval[c]
	if m == nil {
		m = map[*Atom]evalRes{}
		fp.startEval[c] = m
	}
	r, ok := m[a]
	fp.mu.Unlock()
	if ok {
		return r
	}
	r, err := a.eval(fp.ex, fp.starts[c].clone(), false)
	if err != nil {
		fp.problem("%s: invariant %q at %s: %v", fp.fn.Name(), a.Name, c.Label, err)
		r.t = True
	}
	fp.mu.Lock()
	m[a] = r
	fp.mu.Unlock()
	return r
}

func (fp *FuncProof) evalEnd(pe *PathEnd, a *Atom) evalRes {
	fp.mu.Lock()
	m := fp.endEval[pe]
	if m == nil {
		m = map[*Atom]evalRes{}
		fp.endEval[pe] = m
	}
	r, ok := m[a]
	fp.mu.Unlock()
	if ok {
		return r
	}
	est := pe.St
	if a.Fn != nil {
		est = pe.St.clone()
	}
	r, err := a.eval(fp.ex, est, true)
	if err != nil {
		fp.problem("%s: invariant %q at end of path into %s: %v", fp.fn.Name(), a.Name, pe.To.Label, err)
		r.t = False
	}
	fp.mu.Lock()
	m[a] = r
	fp.mu.Unlock()
	return r
}

// startHyps: the invariant of the path's source cut as hypotheses.
func (fp *FuncProof) startHyps(pe *PathEnd) ([]*Term, []*QFact) {
	return fp.startHypsPhase(pe, "heavy")
}

func (fp *FuncProof) startHypsPhase(pe *PathEnd, phase string) ([]*Term, []*QFact) {
	var hs []*Term
	var qs []*QFact
	if pe.From == nil {
		return nil, nil
	}
	c := pe.From
	add := func(a *Atom) {
		r := fp.evalStart(c, a)
		hs = append(hs, r.hs...)
		hs = append(hs, r.t)
		qs = append(qs, r.qs...)
	}
	for _, a := range fp.given[c] {
		add(a)
	}
	for _, a := range fp.cands[c] {
		fp.mu.Lock()
		al := fp.alive[c][a]
		fp.mu.Unlock()
		if al {
			add(a)
		}
	}
	if fp.sim != nil && phase == "heavy" {
		st := fp.starts[c].clone()
		hs = append(hs, fp.sim.member(c, st))
		_, sq, _ := fp.sim.stackRel(c, st, false)
		qs = append(qs, sq...)
	}
	return hs, qs
}

func (fp *FuncProof) fromLabel(pe *PathEnd) string {
	if pe.From == nil {
		return "entry"
	}
	return pe.From.Label
}

func (fp *FuncProof) query(name string, hyps []*Term, qs []*QFact, goals []*Term, values []*Term) (Result, *Query, []string) {
	q := &Query{Name: name, Hyps: hyps, QFacts: qs, Goals: goals, Values: values}
	body, vals := q.Build(0)
	if d := os.Getenv("RJV_DUMPQ"); d != "" && strings.Contains(name, d) {
		fmt.Printf(";;;; QUERY %s\n%s\n", name, body)
	}
	fp.mu.Lock()
	fp.stats.Queries++
	fp.mu.Unlock()
	r := fp.eng.pool.Decide(body, vals, fp.opts.QuickMs, fp.opts.SlowMs)
	if sl := os.Getenv("RJV_SLOW"); sl != "" {
		if ms, _ := strconv.Atoi(sl); r.Secs*1000 > float64(ms) {
			fmt.Printf(";;;; SLOW %s %.2fs %s %s goals=%d bytes=%d\n", name, r.Secs, r.Solver, r.Status, len(goals), len(body))
			if os.Getenv("RJV_SLOWDUMP") != "" {
				os.WriteFile(fmt.Sprintf("/tmp/slow_%d.smt2", time.Now().UnixNano()), []byte(body+"(check-sat)\n"), 0o644)
			}
		}
	}
	return r, q, vals
}

// Houdini: drop candidate atoms until the remaining conjunction is inductive. With a simulation
// driver attached the same loop also grows the per-cut sets of spec states (least fixpoint).
func (fp *FuncProof) Houdini() {
	fp.houdiniPhase("light")
	if fp.sim != nil {
		fp.houdiniPhase("heavy")
	}
	for _, c := range fp.cuts {
		for _, a := range fp.cands[c] {
			if fp.alive[c][a] {
				fp.stats.Kept++
			}
		}
	}
}

func (fp *FuncProof) houdiniPhase(phase string) {
	var all []*PathEnd
	for _, pe := range fp.paths {
		if pe.Kind == "cut" && (len(fp.cands[pe.To]) > 0 || fp.sim != nil) {
			all = append(all, pe)
		}
	}
	stackOp := func(pe *PathEnd) bool {
		for _, ev := range pe.St.events {
			if ev.Kind == "store-elem" || ev.Kind == "load-elem" {
				return true
			}
		}
		return false
	}
	work := all
	for round := 0; len(work) > 0 && round < 400; round++ {
		fp.stats.HoudiniIters++
		changed := map[*Cut]bool{}
		kChanged := false
		var wg sync.WaitGroup
		var cmu sync.Mutex
		for _, pe := range work {
			pe := pe
			wg.Add(1)
			go func() {
				defer wg.Done()
				dropped, kc := fp.houdiniPath(pe, phase)
				cmu.Lock()
				if dropped {
					changed[pe.To] = true
				}
				if kc {
					kChanged = true
				}
				cmu.Unlock()
			}()
		}
		wg.Wait()
		var next []*PathEnd
		for _, pe := range all {
			if (pe.From != nil && changed[pe.From]) || (kChanged && stackOp(pe)) {
				next = append(next, pe)
			}
		}
		work = next
	}
}

// houdiniPath makes the path's target invariant hold by weakening it: candidate atoms false in
// a counter-model are dropped, spec-state tuples / return-state contexts seen in a counter-model
// are added. Returns whether the target cut's invariant changed and whether K grew.
func (fp *FuncProof) houdiniPath(pe *PathEnd, phase string) (changed, kChanged bool) {
	var goals []*Atom
	fp.mu.Lock()
	for _, a := range fp.cands[pe.To] {
		if fp.alive[pe.To][a] {
			goals = append(goals, a)
		}
	}
	fp.mu.Unlock()
	if len(goals) == 0 && (fp.sim == nil || phase == "light") {
		return false, false
	}
	drop := func(a *Atom) {
		fp.mu.Lock()
		if fp.alive[pe.To][a] {
			fp.alive[pe.To][a] = false
			changed = true
			if td := os.Getenv("RJV_TRACE_DROP"); td != "" && strings.Contains(a.Name, td) {
				fmt.Printf(";; DROP %s at %s via %s (%s)\n", a.Name, pe.To.Label, fp.tracePath(pe), phase)
			}
		}
		fp.mu.Unlock()
	}
	for iter := 0; iter < 300; iter++ {
		hs, qs := fp.startHypsPhase(pe, phase)
		hs = append(hs, pe.St.pc...)
		qs = append(qs, pe.St.qfacts...)
		var gts []*Term
		var live []*Atom
		for _, a := range goals {
			fp.mu.Lock()
			al := fp.alive[pe.To][a]
			fp.mu.Unlock()
			if !al {
				continue
			}
			r := fp.evalEnd(pe, a)
			if r.t == True {
				continue
			}
			if heavyTerm(r.t) != (phase == "heavy") {
				continue
			}
			hs = append(hs, r.hs...)
			qs = append(qs, r.qs...)
			gts = append(gts, r.t)
			live = append(live, a)
		}
		if phase == "light" && fp.ex.simVariant != "" {
			hs, qs = lightHyps(hs, qs)
		}
		values := append([]*Term{}, gts...)
		var memberT, stackT *Term
		var keyTerms, skTerms []*Term
		if fp.sim != nil && phase == "heavy" {
			est := pe.St.clone()
			memberT = fp.sim.member(pe.To, est)
			keyTerms = fp.sim.keyTerms(pe.To, est)
			stackT, _, skTerms = fp.sim.stackRel(pe.To, est, true)
			gts = append(gts, memberT, stackT)
			values = append(values, memberT, stackT)
			values = append(values, keyTerms...)
			values = append(values, skTerms...)
		}
		allTrue := true
		for _, g := range gts {
			if g != True {
				allTrue = false
			}
		}
		if allTrue {
			return changed, kChanged
		}
		res, qq, vals := fp.query("houdini", hs, qs, gts, values)
		if dp := os.Getenv("RJV_DUMPPATH"); dp != "" && dp == fp.fromLabel(pe)+"->"+pe.To.Label {
			body, _ := qq.Build(0)
			fmt.Printf(";;;; HOUDINI %s phase=%s iter=%d status=%s\n", dp, phase, iter, res.Status)
			for k, a := range live {
				if k < len(vals) {
					fmt.Printf(";;   goal %s = %s\n", a.Name, res.Values[vals[k]])
				}
			}
			for k := len(live); k < len(values) && k < len(vals); k++ {
				fmt.Printf(";;   value %s = %s\n", values[k].String()[:min(120, len(values[k].String()))], res.Values[vals[k]])
			}
			os.WriteFile(fmt.Sprintf("/tmp/houdini_%s_%d.smt2", phase, iter), []byte(body+"(check-sat)\n(get-model)\n"), 0o644)
		}
		if res.Status == "unsat" {
			return changed, kChanged
		}
		progress := false
		if res.Status == "sat" && len(res.Values) > 0 {
			val := func(i int) string {
				if i < len(vals) {
					return res.Values[vals[i]]
				}
				return ""
			}
			for k, a := range live {
				if val(k) == "false" {
					drop(a)
					progress = true
				}
			}
			if fp.sim != nil && phase == "heavy" {
				base := len(live)
				if memberT != True && val(base) == "false" {
					var tuple []int64
					ok := true
					for j := range keyTerms {
						v, good := parseBV(val(base + 2 + j))
						if !good {
							ok = false
							break
						}
						if keyTerms[j].Sort.W == 64 && v.Bit(63) == 1 {
							ok = false
							break
						}
						tuple = append(tuple, v.Int64())
					}
					if ok {
						tk := tupleKey(tuple)
						fp.sim.mu.Lock()
						if !fp.sim.S[pe.To][tk] && len(fp.sim.S[pe.To]) < 400 {
							if ts := os.Getenv("RJV_TRACE_S"); ts != "" && ts == pe.To.Label {
								fmt.Printf(";; S[%s] += %v (%s) via %s\n", pe.To.Label, tuple, fp.sim.tab.name(int(tuple[len(tuple)-1])), fp.tracePath(pe))
							}
							fp.sim.S[pe.To][tk] = true
							changed = true
							progress = true
						}
						fp.sim.mu.Unlock()
					}
				}
				if stackT != True && val(base+1) == "false" && len(skTerms) == 4 {
					o := base + 2 + len(keyTerms)
					elem, ok1 := parseBV(val(o + 1))
					ctx, ok2 := parseBV(val(o + 2))
					if ok1 && ok2 && elem.IsInt64() && ctx.IsInt64() && ctx.Int64() <= 2 {
						isConst := false
						for _, c := range fp.ex.storedConsts() {
							if c == elem.Int64() {
								isConst = true
							}
						}
						pair := [2]int64{elem.Int64(), ctx.Int64()}
						fp.sim.mu.Lock()
						if isConst && !fp.sim.K[pair] {
							fp.sim.K[pair] = true
							kChanged = true
							changed = true
							progress = true
						}
						fp.sim.mu.Unlock()
					}
				}
			}
		}
		if !progress {
			// decide each droppable goal separately; whatever cannot be proved is dropped
			for k, a := range live {
				r, q1, _ := fp.query("houdini1", hs, qs, []*Term{gts[k]}, nil)
				if r.Status != "unsat" && r.Status != "sat" {
					// every solver gave up (typical under machine load): one more attempt with a
					// budget four times as long before a possibly true atom is given up
					body, _ := q1.Build(0)
					r = fp.eng.pool.Decide(body, nil, fp.opts.SlowMs, fp.opts.SlowMs*4)
				}
				if r.Status != "unsat" {
					drop(a)
				}
			}
			return changed, kChanged
		}
	}
	return changed, kChanged
}

// Check: the pass that counts. Every obligation is generated with the final invariants and
// sent to the solvers afresh.
func (fp *FuncProof) Check() {
	var wg sync.WaitGroup
	for _, pe := range fp.paths {
		pe := pe
		wg.Add(1)
		go func() {
			defer wg.Done()
			fp.checkPath(pe)
		}()
	}
	wg.Wait()
	fp.checkWeakEdges()
	fp.stats.Unsupported = append(fp.stats.Unsupported, fp.ex.unsup...)
	fp.stats.Unsupported = append(fp.stats.Unsupported, fp.problems...)
}

type goalItem struct {
	name, kind string
	t          *Term
	hs         []*Term
	qs         []*QFact
	nhyp       int // -1: all of pc
	line       int
	weakTry    *Term
	edge       [2]int
}

func (fp *FuncProof) line(p token.Pos) int {
	if !p.IsValid() {
		return 0
	}
	return fp.eng.prog.Fset.Position(p).Line
}

func (fp *FuncProof) checkPath(pe *PathEnd) {
	fnName := fp.eng.displayName(fp.fn)
	from := fp.fromLabel(pe)
	shs, sqs := fp.startHyps(pe)
	var items []goalItem
	for _, o := range pe.St.obls {
		items = append(items, goalItem{name: fmt.Sprintf("%s/%s/%s/%s", fnName, from, o.Kind, o.Name), kind: o.Kind, t: o.Goal, nhyp: o.NHyp, line: fp.line(o.Pos)})
	}
	switch pe.Kind {
	case "cut":
		to := pe.To
		atoms := append([]*Atom{}, fp.given[to]...)
		for _, a := range fp.cands[to] {
			if fp.alive[to][a] {
				atoms = append(atoms, a)
			}
		}
		kind := "inv-preserved"
		if pe.From == nil {
			kind = "inv-init"
		}
		for _, a := range atoms {
			r := fp.evalEnd(pe, a)
			items = append(items, goalItem{name: fmt.Sprintf("%s/%s->%s/%s/%s", fnName, from, to.Label, kind, a.Name), kind: kind, t: r.t, hs: r.hs, qs: r.qs, nhyp: -1})
		}
		if fp.sim != nil {
			est := pe.St.clone()
			items = append(items, goalItem{name: fmt.Sprintf("%s/%s->%s/sim/spec-state", fnName, from, to.Label), kind: "sim", t: fp.sim.member(to, est), nhyp: -1})
			sg, _, _ := fp.sim.stackRel(to, est, true)
			items = append(items, goalItem{name: fmt.Sprintf("%s/%s->%s/sim/stack-relation", fnName, from, to.Label), kind: "sim", t: sg, nhyp: -1})
		}
		// termination
		if pe.From != nil && fp.sameSCC(pe.From, to) {
			ms, me := fp.meas[pe.From], fp.meas[to]
			if ms == nil || me == nil {
				items = append(items, goalItem{name: fmt.Sprintf("%s/%s->%s/decreases", fnName, from, to.Label), kind: "decreases", t: False, nhyp: -1})
			} else {
				rs := fp.evalStart(pe.From, ms)
				re := fp.evalEnd(pe, me)
				// measures are evaluated as terms, not booleans: use EvalTerm
				mStart, err1 := fp.measureTerm(pe.From, ms, fp.starts[pe.From])
				mEnd, err2 := fp.measureTerm(to, me, pe.St)
				_ = rs
				_ = re
				if err1 != nil || err2 != nil {
					fp.problem("%s: measure: %v %v", fnName, err1, err2)
					items = append(items, goalItem{name: fmt.Sprintf("%s/%s->%s/decreases", fnName, from, to.Label), kind: "decreases", t: False, nhyp: -1})
				} else {
					strict := And(Sle(I64(0), mStart), Slt(mEnd, mStart))
					weak := And(Sle(I64(0), mStart), Sle(mEnd, mStart))
					items = append(items, goalItem{name: fmt.Sprintf("%s/%s->%s/decreases", fnName, from, to.Label), kind: "decreases", t: strict, nhyp: -1, weakTry: weak, edge: [2]int{pe.From.Index, to.Index}})
				}
			}
		}
	case "return":
		items = append(items, fp.exitGoals(pe)...)
	case "panic":
		items = append(items, goalItem{name: fmt.Sprintf("%s/%s/panic-unreachable@L%d", fnName, from, fp.line(pe.Pos)), kind: "panic", t: False, nhyp: -1})
	case "abort":
		items = append(items, goalItem{name: fmt.Sprintf("%s/%s/path-enumeration-aborted", fnName, from), kind: "abort", t: False, nhyp: -1})
	}
	if fp.sim != nil {
		items = append(items, fp.sim.eventObligations(pe)...)
	}
	if fp.opts.Alloc && fp.fc != nil && fp.fc.AllocSite != nil && (pe.Kind == "cut" || pe.Kind == "return") {
		// per-event allocation bound: the bytes requested at each allocation site on the path are
		// bounded by the contract's expression evaluated in the end-of-path state
		env := fp.ex.cellEnv(pe.St, true)
		var hs []*Term
		var qs []*QFact
		env.hsink, env.qsink = &hs, &qs
		if bound, err := env.EvalTerm(fp.fc.AllocSite.Expr); err == nil {
			bound = Resize(bound, 64, true)
			for _, ev := range pe.St.events {
				if ev.Kind == "alloc" && ev.Info["bytes"] != nil {
					b := ev.Info["bytes"]
					items = append(items, goalItem{name: fmt.Sprintf("%s/%s/alloc-bound/%s", fnName, from, stripLine(ev.Site)), kind: "alloc-bound", t: And(Sle(I64(0), b), Sle(b, bound)), nhyp: -1})
				}
			}
		} else {
			fp.problem("allocsite bound: %v", err)
		}
	}
	if fp.opts.ExtraExit != nil {
		for _, o := range fp.opts.ExtraExit(fp, pe) {
			items = append(items, goalItem{name: fmt.Sprintf("%s/%s/%s/%s", fnName, from, o.Kind, o.Name), kind: o.Kind, t: o.Goal, nhyp: o.NHyp, line: fp.line(o.Pos)})
		}
	}
	if fp.opts.OnlyKinds != nil {
		var keep []goalItem
		for _, it := range items {
			if fp.opts.OnlyKinds[it.kind] {
				keep = append(keep, it)
			}
		}
		items = keep
	}
	if len(items) == 0 {
		return
	}
	// batch: everything whose hypotheses are the whole path condition
	hypsFor := func(it goalItem) ([]*Term, []*QFact) {
		hs := append([]*Term{}, shs...)
		qs := append([]*QFact{}, sqs...)
		n := it.nhyp
		if n < 0 || n > len(pe.St.pc) {
			n = len(pe.St.pc)
		}
		hs = append(hs, pe.St.pc[:n]...)
		for _, q := range pe.St.qfacts {
			if q.At <= n {
				qs = append(qs, q)
			}
		}
		hs = append(hs, it.hs...)
		qs = append(qs, it.qs...)
		return hs, qs
	}
	var pending []goalItem
	for _, it := range items {
		e := fp.ledgerEntry(it)
		if it.t == True {
			fp.mu.Lock()
			e.Instances++
			e.Trivial++
			fp.mu.Unlock()
			continue
		}
		pending = append(pending, it)
	}
	if len(pending) == 0 {
		return
	}
	isSim := fp.sim != nil || fp.ex.simVariant != ""
	full := func(it goalItem) bool { return it.nhyp < 0 || it.nhyp >= len(pe.St.pc) }
	// batches: goals that share the whole path condition are first tried as one conjunction
	// (light goals with the light hypotheses, the rest with everything)
	tryBatch := func(sel func(goalItem) bool, light bool) {
		var batch []goalItem
		var rest []goalItem
		for _, it := range pending {
			if full(it) && sel(it) {
				batch = append(batch, it)
			} else {
				rest = append(rest, it)
			}
		}
		if len(batch) < 2 {
			return
		}
		hs, qs := hypsFor(goalItem{nhyp: -1})
		var gts []*Term
		for _, it := range batch {
			hs = append(hs, it.hs...)
			qs = append(qs, it.qs...)
			gts = append(gts, it.t)
		}
		if light {
			hs, qs = lightHyps(hs, qs)
		} else if !isSim {
			// without the decimal-value step axioms first
			var q2 []*QFact
			dv := false
			for _, q := range qs {
				if q.Name == "DVstep" {
					dv = true
				} else {
					q2 = append(q2, q)
				}
			}
			if dv {
				r0, q0, _ := fp.query("batch(tier)", hs, q2, gts, nil)
				if r0.Status == "unsat" && fp.confirm(r0, q0) {
					for _, it := range batch {
						fp.record(it, r0, nil, nil, pe)
					}
					pending = rest
					return
				}
			}
		}
		res, q, _ := fp.query("batch", hs, qs, gts, nil)
		if res.Status == "unsat" && fp.confirm(res, q) {
			for _, it := range batch {
				fp.record(it, res, nil, nil, pe)
			}
			pending = rest
		}
	}
	if isSim {
		tryBatch(func(it goalItem) bool { return !heavyTerm(it.t) && it.weakTry == nil }, true)
		tryBatch(func(it goalItem) bool { return it.weakTry == nil }, false)
	} else {
		tryBatch(func(it goalItem) bool { return it.weakTry == nil }, false)
	}
	for _, it := range pending {
		hs, qs := hypsFor(it)
		vals := fp.modelTerms(pe)
		tiers := hypTiers(hs, qs, it.t)
		proved := false
		for _, tr := range tiers[:len(tiers)-1] {
			r0, q0, _ := fp.query(it.name+"(tier)", tr[0].([]*Term), tr[1].([]*QFact), []*Term{it.t}, nil)
			if r0.Status == "unsat" && fp.confirm(r0, q0) {
				fp.record(it, r0, nil, nil, pe)
				proved = true
				break
			}
		}
		if proved {
			continue
		}
		res, q, vstr := fp.query(it.name, hs, qs, []*Term{it.t}, vals)
		if res.Status == "unsat" && !fp.confirm(res, q) {
			res.Status = "unknown"
			res.Raw = "second solver disagreed or could not confirm"
		}
		if res.Status != "unsat" && it.weakTry != nil {
			r2, q2, _ := fp.query(it.name+"(weak)", hs, qs, []*Term{it.weakTry}, nil)
			if r2.Status == "unsat" && fp.confirm(r2, q2) {
				fp.mu.Lock()
				fp.weak[it.edge] = true
				fp.mu.Unlock()
				fp.record(it, r2, nil, nil, pe)
				continue
			}
		}
		fp.record(it, res, q, fmtModel(vals, vstr, res), pe)
	}
}

func (fp *FuncProof) confirm(res Result, q *Query) bool {
	if !fp.opts.Thorough {
		return true
	}
	body, _ := q.Build(0)
	_, ok := fp.eng.pool.Confirm(res, body, fp.opts.SlowMs)
	return ok
}

func (fp *FuncProof) measureTerm(c *Cut, a *Atom, st *State) (*Term, error) {
	env := fp.ex.cellEnv(st.clone(), false)
	var hs []*Term
	var qs []*QFact
	env.hsink, env.qsink = &hs, &qs
	t, err := env.EvalTerm(a.Expr)
	if err != nil {
		return nil, err
	}
	return Resize(t, 64, true), nil
}

func (fp *FuncProof) ledgerEntry(it goalItem) *LedgerEntry {
	fp.mu.Lock()
	defer fp.mu.Unlock()
	e := fp.ledger.get(it.name, it.kind, fp.eng.displayName(fp.fn))
	if it.line != 0 {
		e.Line = it.line
	}
	return e
}

func (fp *FuncProof) record(it goalItem, res Result, q *Query, model []string, pe *PathEnd) {
	e := fp.ledgerEntry(it)
	fp.mu.Lock()
	defer fp.mu.Unlock()
	e.Instances++
	e.Secs += res.Secs
	if res.Status == "unsat" {
		if e.Solver == "" {
			e.Solver = res.Solver
		}
		return
	}
	if res.Status != "sat" && q != nil {
		e.undecidedQs = append(e.undecidedQs, q)
	}
	if e.Status == "discharged" || (e.Status == "undecided" && res.Status == "sat") {
		if res.Status == "sat" {
			e.Status = "failed"
		} else {
			e.Status = "undecided"
		}
		e.Solver = res.Solver
		e.Detail = fmt.Sprintf("solver answered %s on path %s", res.Status, fp.tracePath(pe))
		if res.Status != "sat" && res.Raw != "" {
			e.Detail += ": " + firstLine(res.Raw)
		}
		e.Model = model
		e.failQ = q
		e.failRes = res
	}
}

func firstLine(s string) string {
	if i := strings.IndexByte(s, '\n'); i >= 0 {
		return s[:i]
	}
	return s
}

func (fp *FuncProof) tracePath(pe *PathEnd) string {
	var sb strings.Builder
	sb.WriteString(fp.fromLabel(pe))
	n := 0
	for _, bi := range pe.St.trace {
		b := fp.fn.Blocks[bi]
		if b.Comment != "" && !strings.Contains(b.Comment, ".") {
			sb.WriteString(">" + b.Comment)
			n++
			if n > 12 {
				sb.WriteString(">...")
				break
			}
		}
	}
	switch pe.Kind {
	case "cut":
		sb.WriteString(">" + pe.To.Label)
	default:
		sb.WriteString(">" + pe.Kind)
	}
	return sb.String()
}

// modelTerms: what to ask the solver for when an obligation fails.
func (fp *FuncProof) modelTerms(pe *PathEnd) []*Term {
	var out []*Term
	seen := map[int]bool{}
	add := func(t *Term) {
		if t != nil && !seen[t.id] && !t.IsConst() {
			seen[t.id] = true
			out = append(out, t)
		}
	}
	st := pe.Start
	if st == nil {
		return nil
	}
	names := make([]string, 0, len(fp.ex.cells))
	for n := range fp.ex.cells {
		names = append(names, n)
	}
	sort.Strings(names)
	for _, n := range names {
		a := fp.ex.cells[n]
		switch v := st.store[a].(type) {
		case *Term:
			if v.Sort.Kind == KBV || v.Sort.Kind == KBool {
				add(v)
			}
		case *SliceV:
			add(v.Len)
			add(v.Cap)
		}
	}
	for _, p := range fp.fn.Params {
		switch v := fp.ex.params[p.Name()].(type) {
		case *Term:
			if v.Sort.Kind == KBV || v.Sort.Kind == KBool {
				add(v)
			}
		case *SliceV:
			add(v.Len)
			if arr, ok := st.store[v.Reg].(*ArrayV); ok && v.Reg.Input {
				for k := int64(0); k < 24; k++ {
					add(Select(arr.Arr, I64(k)))
				}
			}
		}
	}
	for _, ev := range pe.St.events {
		if ev.Kind == "invoke" {
			add(ev.Info["p"])
		}
	}
	if len(out) > 80 {
		out = out[:80]
	}
	return out
}

// exitGoals: postconditions at a return.
func (fp *FuncProof) exitGoals(pe *PathEnd) []goalItem {
	var items []goalItem
	if fp.fc == nil {
		return nil
	}
	fnName := fp.eng.displayName(fp.fn)
	from := fp.fromLabel(pe)
	line := fp.line(pe.Pos)
	exitName := fmt.Sprintf("exit#%d", fp.returnOrdinal(pe.Pos))
	// returned strings own their memory: they come from a []byte->string conversion (a copy by the
	// language definition), a constant, or are empty - never a view of the input or of a buffer
	for j, rv := range pe.Results {
		if sv, ok := rv.(*StringV); ok {
			owns := sv.Reg.Copy || sv.Reg.Kind == "nil" || strings.HasPrefix(sv.Reg.Name, "strconst")
			items = append(items, goalItem{name: fmt.Sprintf("%s/%s/%s/frame/returned-string-%d-owns-memory", fnName, from, exitName, j), kind: "frame", t: BoolC(owns), nhyp: -1, line: line})
		}
	}
	for k, c := range fp.fc.Ensures {
		if !fp.ex.clauseActive(c) {
			continue
		}
		env := fp.ex.resultEnv(pe, true)
		var hs []*Term
		var qs []*QFact
		env.hsink, env.qsink = &hs, &qs
		env.old.hsink, env.old.qsink = &hs, &qs
		t, err := env.EvalBool(c.Expr)
		name := fmt.Sprintf("%s/%s/%s/ensures#%d", fnName, from, exitName, k+1)
		if c.Label != "" {
			name += "[" + c.Label + "]"
		}
		if err != nil {
			fp.problem("%s: ensures %q: %v", fnName, c.Text, err)
			t = False
		}
		hs = append(hs, fp.specLemmaInstances(pe, append(append([]*Term{}, hs...), t))...)
		items = append(items, goalItem{name: name, kind: "ensures", t: t, hs: hs, qs: qs, nhyp: -1, line: line})
	}
	return items
}

// sameSCC: can control get from b back to a (through cut-to-cut paths)?
func (fp *FuncProof) sameSCC(a, b *Cut) bool {
	if fp.reach == nil {
		fp.reach = map[*Cut]map[*Cut]bool{}
		adj := map[*Cut][]*Cut{}
		for _, pe := range fp.paths {
			if pe.Kind == "cut" && pe.From != nil {
				adj[pe.From] = append(adj[pe.From], pe.To)
			}
		}
		for _, c := range fp.cuts {
			r := map[*Cut]bool{}
			stack := []*Cut{c}
			for len(stack) > 0 {
				x := stack[len(stack)-1]
				stack = stack[:len(stack)-1]
				for _, y := range adj[x] {
					if !r[y] {
						r[y] = true
						stack = append(stack, y)
					}
				}
			}
			fp.reach[c] = r
		}
	}
	return fp.reach[b][a]
}

// checkWeakEdges: edges on which the measure is only shown non-increasing must not form a cycle.
func (fp *FuncProof) checkWeakEdges() {
	fp.stats.WeakEdges = len(fp.weak)
	if len(fp.weak) == 0 {
		return
	}
	adj := map[int][]int{}
	for e := range fp.weak {
		adj[e[0]] = append(adj[e[0]], e[1])
	}
	color := map[int]int{}
	cyc := false
	var dfs func(n int)
	dfs = func(n int) {
		color[n] = 1
		for _, m := range adj[n] {
			if color[m] == 1 {
				cyc = true
			} else if color[m] == 0 {
				dfs(m)
			}
		}
		color[n] = 2
	}
	for n := range adj {
		if color[n] == 0 {
			dfs(n)
		}
	}
	e := fp.ledger.get(fp.eng.displayName(fp.fn)+"/measure/non-strict-edges-acyclic", "decreases", fp.eng.displayName(fp.fn))
	e.Instances = len(fp.weak)
	e.Solver = "graph"
	if cyc {
		e.Status = "failed"
		e.Detail = "edges on which the measure does not strictly decrease form a cycle"
	}
}

func (fp *FuncProof) Run() {
	t0 := time.Now()
	fp.Prepare()
	hinted := false
	if fp.opts.OnlyKinds == nil {
		hinted = fp.loadHints()
		if !hinted {
			fp.Houdini()
		}
	}
	fp.Check()
	if hinted {
		// the hinted invariants are verified like any others; if anything fails (stale hints or a
		// changed function) the hint is discarded and inference is redone from scratch
		fp.retryUndecided()
		if tot, dis := fp.ledger.Counts(); tot != dis {
			fp.resetInvariants()
			fp.ledger = NewLedger()
			fp.weak = map[[2]int]bool{}
			fp.Houdini()
			fp.Check()
		}
	}
	// inference can stop early when a solver gives up under load; the check pass then shows a
	// non-inductive invariant with a counter-model, from which inference can resume. Everything is
	// re-verified from scratch after each resumption.
	if fp.opts.OnlyKinds == nil {
		for round := 0; round < 2 && fp.nonInductive(); round++ {
			fp.ledger = NewLedger()
			fp.weak = map[[2]int]bool{}
			fp.Houdini()
			fp.Check()
		}
	}
	if fp.opts.Rel {
		fp.RelCheck()
	}
	fp.retryUndecided()
	fp.stats.Secs = time.Since(t0).Seconds()
	fp.stats.Hints = fp.usedHints
	if os.Getenv("RJV_WRITE_HINTS") != "" && fp.opts.OnlyKinds == nil {
		if tot, dis := fp.ledger.Counts(); tot == dis && len(fp.cuts) > 2 {
			fp.writeHints()
		}
	}
}

// retryUndecided: an obligation on which every solver gave up within the normal budget (typical
// under machine load) is not a violation yet: its queries are run again, a few at a time, with a
// budget six times as long. Only `unsat` on every instance discharges it; `sat` makes it failed.
func (fp *FuncProof) retryUndecided() {
	var todo []*LedgerEntry
	for _, e := range fp.ledger.Sorted() {
		if e.Status == "undecided" && len(e.undecidedQs) > 0 && len(e.undecidedQs) <= 40 {
			todo = append(todo, e)
		}
	}
	if len(todo) == 0 || len(todo) > 25 {
		return
	}
	sem := make(chan struct{}, 4)
	var wg sync.WaitGroup
	for _, e := range todo {
		e := e
		wg.Add(1)
		go func() {
			defer wg.Done()
			allUnsat, anySat := true, false
			var satRes Result
			for _, q := range e.undecidedQs {
				sem <- struct{}{}
				body, vals := q.Build(0)
				r := fp.eng.pool.Decide(body, vals, fp.opts.SlowMs, fp.opts.SlowMs*6)
				<-sem
				if r.Status == "sat" {
					anySat, satRes = true, r
					e.failQ, e.failRes = q, r
					break
				}
				if r.Status != "unsat" {
					allUnsat = false
				}
			}
			fp.mu.Lock()
			defer fp.mu.Unlock()
			switch {
			case anySat:
				e.Status = "failed"
				e.Detail = "solver answered sat on retry"
				e.Solver = satRes.Solver
			case allUnsat:
				e.Status = "discharged"
				e.Detail = ""
				e.Solver = "retry-long-timeout"
				e.failQ = nil
			}
		}()
	}
	wg.Wait()
}

// nonInductive: some invariant-preservation obligation failed in the last check pass.
func (fp *FuncProof) nonInductive() bool {
	n, other := 0, 0
	for _, e := range fp.ledger.Sorted() {
		if e.Status == "discharged" {
			continue
		}
		if e.Kind == "sim" || e.Kind == "inv-preserved" || e.Kind == "inv-init" {
			n++
		} else {
			other++
		}
	}
	// a handful of non-inductive atoms and nothing else: an inference artefact worth resuming;
	// many failures (or failed exit obligations) are reported as they are
	return n > 0 && n <= 6 && other == 0
}

// resetInvariants: forget everything inferred (or hinted): all candidate atoms alive again, no
// spec-state tuples, no return-state contexts.
func (fp *FuncProof) resetInvariants() {
	for _, c := range fp.cuts {
		for _, a := range fp.cands[c] {
			fp.alive[c][a] = true
		}
		if fp.sim != nil {
			fp.sim.S[c] = map[string]bool{}
		}
	}
	if fp.sim != nil {
		fp.sim.K = map[[2]int64]bool{}
	}
	fp.startEval = map[*Cut]map[*Atom]evalRes{}
	fp.endEval = map[*PathEnd]map[*Atom]evalRes{}
	fp.usedHints = false
}

// specLemmaInstances: instances of the absorption lemma (Dead and Done are absorbing) for every
// position at which the path or the goal mentions the spec run.
func (fp *FuncProof) specLemmaInstances(pe *PathEnd, extra []*Term) []*Term {
	ex := fp.ex
	if ex.simVariant == "" {
		return nil
	}
	var out []*Term
	all := append(append([]*Term{}, pe.St.pc...), extra...)
	seen := map[string]bool{}
	for _, p := range ex.fn.Params {
		sv, ok := ex.params[p.Name()].(*SliceV)
		if !ok || !sv.Reg.Input {
			continue
		}
		arr, ok := fp.s0.store[sv.Reg].(*ArrayV)
		if !ok || arr.Arr.Op != "var" {
			continue
		}
		n := Add(sv.Off, sv.Len)
		for _, app := range Apps(ex.rName("q", arr.Arr), all...) {
			k := app.Args[0]
			key := fmt.Sprintf("%d", k.id)
			if seen[key] || k == n {
				continue
			}
			seen[key] = true
			out = append(out, ex.absorbInstance(arr.Arr, k, n))
		}
	}
	return out
}

// returnOrdinal: 1-based index of a return statement among the function's returns in source
// order (obligation names must not depend on line numbers).
func (fp *FuncProof) returnOrdinal(pos token.Pos) int {
	fp.mu.Lock()
	defer fp.mu.Unlock()
	if fp.retOrd == nil {
		fp.retOrd = map[token.Pos]int{}
		var ps []token.Pos
		for _, b := range fp.fn.Blocks {
			if len(b.Instrs) == 0 {
				continue
			}
			if r, ok := b.Instrs[len(b.Instrs)-1].(*ssa.Return); ok {
				ps = append(ps, r.Pos())
			}
		}
		sort.Slice(ps, func(i, j int) bool { return ps[i] < ps[j] })
		n := 0
		for _, p := range ps {
			if _, ok := fp.retOrd[p]; !ok {
				n++
				fp.retOrd[p] = n
			}
		}
	}
	return fp.retOrd[pos]
}

func stripLine(site string) string {
	if i := strings.LastIndex(site, "@L"); i >= 0 {
		return site[:i]
	}
	return site
}
