package main

// rjv selftest: the replay oracles themselves are checked on the current tree. Every replay
// family is compiled against /repo and searched with its full corpus; on a tree on which the
// deductive checks pass none of them may report a failing input (an oracle that disagrees with
// the contracts would turn a real violation report into a wrong replay, or the other way round),
// and a harness that does not compile would silently lose every concrete replay.

import (
	"fmt"
	"os"
	"strings"
	"sync"
)

func cmdSelftest(args []string) {
	eng := &Engine{repo: repoDir()}
	cases := []struct{ prop, fn, kind string }{
		{"C01", "Valid", "ensures"},
		{"C02", "SkipValue", "ensures"},
		{"C11", "SkipValueFast", "ensures"},
		{"C10", "skipValue", "bounds"},
		{"C10", "handleArrayValues", "bounds"},
		{"C10", "handleObjectValues", "bounds"},
		{"C10", "ReadStringBytes", "bounds"},
		{"C10", "uncovered", "bounds"},
		{"C16", "UnescapeStringContent", "ensures"},
		{"C09", "handleObjectValues", "err-identity"},
		{"C07", "handleObjectValues", "sim"},
		{"C07", "handleArrayValues", "sim"},
		{"C12", "DecodeInt64", "ensures"},
		{"C12", "DecodeString", "ensures"},
		{"C16", "ReadStringBytes", "ensures"},
		{"C05", "ReadInt64", "ensures"},
		{"C05", "ReadUint32", "ensures"},
		{"C13", "NextToken", "ensures"},
		{"C13", "readNull", "ensures"},
		{"C06", "ReadStringBytes", "ensures"},
		{"C19", "ReadInt64", "ensures"},
		{"C04", "ReadFloat64", "equiv"},
	}
	dir, _ := os.MkdirTemp("", "rjv-selftest-")
	defer os.RemoveAll(dir)
	var wg sync.WaitGroup
	var mu sync.Mutex
	bad := 0
	sem := make(chan struct{}, 8)
	for _, c := range cases {
		c := c
		wg.Add(1)
		sem <- struct{}{}
		go func() {
			defer wg.Done()
			defer func() { <-sem }()
			p := &Property{ID: c.prop}
			e := &LedgerEntry{Name: "selftest/" + c.prop + "/" + c.fn, Fn: c.fn, Kind: c.kind}
			rt, ok := concreteReplay(eng, p, e, nil, dir+"/"+c.prop+"_"+c.fn)
			mu.Lock()
			defer mu.Unlock()
			switch {
			case !ok:
				fmt.Printf("selftest %s %s: no replay family\n", c.prop, c.fn)
				bad++
			case rt.Reproduced || rt.File != "":
				fmt.Printf("selftest %s %s: ORACLE DISAGREES WITH THE CODE on %s\n%s\n", c.prop, c.fn, rt.Input, tail(rt.Output, 600))
				bad++
			case strings.Contains(rt.Output, "build failed") || !strings.Contains(rt.Output, "RJV-REPLAY-NONE"):
				fmt.Printf("selftest %s %s: harness did not run:\n%s\n", c.prop, c.fn, tail(rt.Output, 800))
				bad++
			default:
				i := strings.Index(rt.Output, "RJV-REPLAY-NONE")
				fmt.Printf("selftest %s %s: ok (%s)\n", c.prop, c.fn, strings.TrimSpace(strings.SplitN(rt.Output[i:], "\n", 2)[0]))
			}
		}()
	}
	wg.Wait()
	if bad > 0 {
		fmt.Printf("selftest: %d problem(s)\n", bad)
		os.Exit(1)
	}
	fmt.Println("selftest: all replay oracles compile, run, and agree with the code on their corpora")
}
